"""Suite `commtext` (property C17): decoded community text is accepted back by the REST API and re-encodes the same.

Correspondence (the tie of Model/ExtComm.lean, Model/Text.lean to /repo):
  * the three constant tables the model hard-codes vs yabgp/common/constants.py;
  * the CPython primitives the text model is built from (int, int(,16), strip, lower, split, netaddr.IPAddress, struct 'f');
  * ExtCommunity.parse / ExtCommunity.construct, Community / LargeCommunity parse / construct on their text forms;
  * the REST translation + constructor: POST /json_to_bin and /send/update on the real Flask app against an Established
    session, for peers with / without the 4-octet AS capability and without any capability, vs `extcomm.rest`; the item
    lists themselves at the api_utils seam vs `extcomm.translate`.
Property oracle on the real code (C17): for every kind x field tuple in range the octets of the reference encoder
(Spec/RfcExtComm.lean, evaluated by the Lean driver) are decoded by the real decoder to ONE text, which must be the text
form of that value (name and decimal fields); that text is POSTed to the
real REST endpoints; the attribute produced must be exactly the reference octets and decode to the identical text.  The same
for every class of the 2^32 community values incl. every well-known name, and for large communities up to 2^32-1.
"""
import json
import os
import struct
import sys
import time

from lib.base import SuiteResult, rng_for, jdump
import impl_xc as I

SEARCH = True
NAME = 'commtext'
_T0 = [time.time()]


def _trace(what):
    if os.environ.get('VERIF_TRACE'):
        sys.stderr.write('[commtext %6.1fs] %s\n' % (time.time() - _T0[0], what))
        sys.stderr.flush()

B8 = [0, 1, 2, 15, 16, 127, 128, 254, 255]
B16 = [0, 1, 2, 9, 10, 99, 100, 255, 256, 257, 999, 1000, 9999, 10000, 32767, 32768, 65534, 65535]
B32 = [0, 1, 255, 256, 65535, 65536, 65537, 99999, 100000, 2 ** 24 - 1, 2 ** 24, 2 ** 31 - 1, 2 ** 31, 2 ** 32 - 2, 2 ** 32 - 1]
AS4 = [65536, 65537, 70000, 131072, 2 ** 24, 2 ** 31 - 1, 2 ** 31, 4200000000, 2 ** 32 - 2, 2 ** 32 - 1]
IPS = [0, 1, 0x01020304, 0x0a000001, 0xc0a80101, 0x64646464, 0x7f000001, 0xff000000, 0x00ff00ff, 0x09090909,
       0x0a0a0a0a, 0x63636363, 0xfffffffe, 0xffffffff]
MACS = [0, 1, 0xff, 0x0a0b0c0d0e0f, 0xaabbccddeeff, 0x99a09fa9af00, 2 ** 47, 2 ** 48 - 2, 2 ** 48 - 1]
LABELS = [0, 1, 15, 16, 17, 100, 2 ** 19, 2 ** 20 - 2, 2 ** 20 - 1]


def f32_exact_pool(r, n):
    out = [0, 1, 2, 3, 7, 9, 10, 1000, 12345, 2 ** 23 - 1, 2 ** 23, 2 ** 23 + 1, 2 ** 24 - 1, 2 ** 24, 2 ** 24 + 2, 2 ** 25 - 2,
           2 ** 31, 2 ** 32, 125000000, 1250000000, 2 ** 64, 2 ** 100, 2 ** 127, (2 ** 24 - 1) * 2 ** 104, (2 ** 23 + 1) * 2 ** 104]
    for k in range(0, 128, 7):
        out.append(2 ** k)
    for _ in range(n):
        m = r.randrange(1, 2 ** 24)
        e = r.choice([0, 0, 0, 1, 2, 5, 8, 16, 40, 80, 104])
        out.append(m * 2 ** e if m * 2 ** e < 2 ** 128 else m)
    return out


def rnd16(r):
    return r.choice(B16) if r.random() < 0.3 else r.randrange(65536)


def rnd32(r):
    return r.choice(B32) if r.random() < 0.3 else r.randrange(2 ** r.choice([8, 16, 24, 31, 32]))


def rnd_as4(r):
    return r.choice(AS4) if r.random() < 0.3 else r.randrange(65536, 2 ** 32)


def kind_cases(r, n_rand):
    """(kind, fields) in range: full boundary products + structured random"""
    cs = []
    for k in ('rt-as2', 'ro-as2', 'redirect-vrf'):
        cs += [(k, [a, n]) for a in B16 for n in B32]
        cs += [(k, [rnd16(r), rnd32(r)]) for _ in range(n_rand)]
    for k in ('rt-ip4', 'ro-ip4', 'redirect-nexthop'):
        cs += [(k, [ip, n]) for ip in IPS for n in B16]
        cs += [(k, [rnd32(r), rnd16(r)]) for _ in range(n_rand)]
    for k in ('rt-as4', 'ro-as4'):
        cs += [(k, [a, n]) for a in AS4 for n in B16]
        cs += [(k, [rnd_as4(r), rnd16(r)]) for _ in range(n_rand)]
    cs += [('color', [c]) for c in B32] + [('color', [rnd32(r)]) for _ in range(n_rand)]
    cs += [('encapsulation', [t]) for t in B16] + [('encapsulation', [rnd16(r)]) for _ in range(n_rand)]
    fp = f32_exact_pool(r, n_rand)
    for k in ('traffic-rate', 'dmzlink-bw'):
        cs += [(k, [a, f]) for a in (0, 1, 65000, 65535) for f in fp]
        cs += [(k, [rnd16(r), r.choice(fp)]) for _ in range(n_rand)]
    cs += [('traffic-action', [s, t]) for s in (0, 1) for t in (0, 1)]
    cs += [('traffic-marking', [d]) for d in range(64)]
    cs += [('esi-label', [f, l]) for f in B8 for l in LABELS]
    cs += [('esi-label', [r.randrange(256), r.randrange(2 ** 20)]) for _ in range(n_rand)]
    cs += [('mac-mobility', [f, s]) for f in B8 for s in B32]
    cs += [('mac-mobility', [r.randrange(256), rnd32(r)]) for _ in range(n_rand)]
    for k in ('es-import', 'router-mac'):
        cs += [(k, [m]) for m in MACS] + [(k, [r.randrange(2 ** 48)]) for _ in range(n_rand)]
    return cs


KIND_OF_NAME = {'rt-as2', 'rt-ip4', 'rt-as4', 'ro-as2', 'ro-ip4', 'ro-as4', 'color', 'encapsulation', 'redirect-vrf',
                'redirect-nexthop', 'traffic-rate', 'traffic-action', 'traffic-marking', 'dmzlink-bw', 'esi-label',
                'mac-mobility', 'es-import', 'router-mac'}


# ------------------------------------------------------------------------------------------------ the C17 oracle

class _Also(object):
    """failures of the send/update endpoint are failures of C16 too ("the UPDATE written is the one requested")"""

    def __init__(self, res, also):
        self._res = res
        self._also = also
        self.stats = res.stats

    def fail(self, prop, what, replay, key=None):
        self._res.fail(prop, what, replay, key=key)
        for p in self._also:
            self._res.fail(p, what, replay, key=key)


def oracle_ext(res, xd, rest, endpoint, cases, multi=None):
    """cases: [(kind, fields)] all in range and admissible for this peer.  Evaluates the property on the real code."""
    if endpoint == 'send/update':
        res = _Also(res, ['C16'])
    specs = xd.batch([{'op': 'spec.rfcextcomm', 'kind': k, 'fields': f} for k, f in cases])
    for (k, f), sp in zip(cases, specs):
        case = {'kind': k, 'fields': f, 'peer': rest.kind, 'endpoint': endpoint}
        if not sp.get('inrange'):
            res.stats.hit('oracle_skipped_out_of_range')
            continue
        if sp.get('as4') and not rest.caps['four']:
            res.stats.hit('oracle_skipped_as4_to_as2_peer')
            continue
        rfc = bytes.fromhex(sp['hex'])
        res.stats.case(('o', k, jdump(f), rest.kind, endpoint), sample={'oracle': case, 'rfc': sp['hex']})
        res.stats.hit('oracle_' + k)
        d = I.ext_parse(rfc)
        if 'ok' not in d or len(d['ok']) != 1 or not isinstance(d['ok'][0], str):
            res.fail('C17', 'the decoder does not render the RFC octets of a %s community as one text' % k,
                     dict(case, rfc=sp['hex'], decoded=d), key='decode:' + k)
            continue
        text = d['ok'][0]
        if text != sp['text']:
            res.fail('C17', 'the decoder renders the RFC octets of a %s community as a text that denotes another value' % k,
                     dict(case, rfc=sp['hex'], decoded=text, text_of_value=sp['text']), key='text-of-value:' + k)
            continue
        # (every third request names other attributes as well - LOCAL_PREF, MED: what the view does for one attribute must not
        # depend on which others the request carries)
        nth = res.stats.hist.get('oracle_' + k, 0) if hasattr(res.stats, 'hist') else 0
        extra = {'5': 200, '4': 7} if nth % 3 == 2 else None
        # (json_to_bin alternately in its `format=human` layout; the number of prefixes varies so that the message length
        # takes every residue modulo 8, the width of a line of that layout)
        nlri = ['10.%d.0.0/16' % i for i in range(1 + nth % 8)]
        out = rest.post_attr(endpoint, 16, [text], extra=extra, human=(endpoint == 'json_to_bin' and nth % 2 == 1), nlri=nlri)
        if 'hex' not in out:
            res.fail('C17', 'REST %s does not accept the decoded text of a %s community' % (endpoint, k),
                     dict(case, text=text, rest=out), key='rest-rejects:' + k)
            continue
        want = 'c01008' + sp['hex']
        if out['hex'] != want:
            res.fail('C17', 'REST %s re-encodes the decoded text of a %s community to other octets than the RFC requires' % (endpoint, k),
                     dict(case, text=text, produced=out['hex'], rfc=want), key='octets:' + k)
            continue
        d2 = I.ext_parse(bytes.fromhex(out['hex'])[3:])
        if d2 != {'ok': [text]}:
            res.fail('C17', 'the octets produced for a %s community decode to a different text' % k,
                     dict(case, text=text, again=d2), key='text:' + k)
    # several communities in one attribute
    for lst in (multi or []):
        sp = xd.call({'op': 'spec.rfcextattr', 'list': [{'kind': k, 'fields': f} for k, f in lst]})
        want = sp['hex']
        body = bytes.fromhex(want)[3:]
        res.stats.case(('om', jdump(lst), rest.kind, endpoint))
        res.stats.hit('oracle_list')
        d = I.ext_parse(body)
        if 'ok' not in d or len(d['ok']) != len(lst) or not all(isinstance(x, str) for x in d['ok']):
            res.fail('C17', 'the decoder does not render a list of communities as texts', {'list': lst, 'decoded': d}, key='decode:list')
            continue
        out = rest.post_attr(endpoint, 16, d['ok'])
        if out.get('hex') != want:
            res.fail('C17', 'REST %s does not re-encode a list of decoded texts to the RFC octets' % endpoint,
                     {'list': lst, 'texts': d['ok'], 'rest': out, 'rfc': want, 'peer': rest.kind}, key='octets:list')
            continue
        if I.ext_parse(bytes.fromhex(out['hex'])[3:]) != d:
            res.fail('C17', 'list of communities decodes to different texts', {'list': lst}, key='text:list')


def oracle_rendered(res, rest, endpoint, r, n_rand):
    """The first and last clauses of C17 on the decoder's own range: WHATEVER text the decoder renders for eight octets of a
    supported kind (not only the values an RFC encoding exists for: reserved octets set, a 32-bit number in the
    encapsulation community, ...) is accepted back by the REST interface and the octets produced render the identical text."""
    heads = [bytes([0x00, 0x02]), bytes([0x01, 0x02]), bytes([0x02, 0x02]), bytes([0x00, 0x03]), bytes([0x01, 0x03]),
             bytes([0x02, 0x03]), bytes([0x03, 0x0b]), bytes([0x03, 0x0c]), bytes([0x80, 0x08]), bytes([0x08, 0x00]),
             bytes([0x80, 0x06]), bytes([0x80, 0x07]), bytes([0x80, 0x09]), bytes([0x40, 0x04]), bytes([0x06, 0x01]),
             bytes([0x06, 0x00]), bytes([0x06, 0x02]), bytes([0x06, 0x03])]
    edge = [b'\x00' * 6, b'\xff' * 6, b'\x00\x00\x00\x01\x00\x00', b'\x00\x01\x00\x00\x00\x00', b'\x00\x00\xff\xff\xff\xff',
            b'\x00\x00\x00\x01\x00\x01', b'\x01\x00\x00\x00\x00\x00', b'\x80\x00\x00\x00\x00\x00']
    for h in heads:
        for v in edge + [bytes(r.getrandbits(8) for _ in range(6)) for _ in range(max(4, n_rand // 8))]:
            raw = h + v
            d = I.ext_parse(raw)
            if 'ok' not in d or len(d['ok']) != 1 or not isinstance(d['ok'][0], str):
                res.stats.hit('rendered_skipped_not_text')
                continue
            text = d['ok'][0]
            kind = text.split(':', 1)[0]
            if kind.endswith('-bw') or kind == 'traffic-rate':
                # an IEEE binary32 rendered in decimal: C17 is claimed on the exactly representable rates only (see `cannot`)
                res.stats.hit('rendered_skipped_float')
                continue
            res.stats.case(('or', raw.hex(), rest.kind, endpoint), sample={'rendered': raw.hex(), 'text': text})
            res.stats.hit('rendered_' + kind)
            out = rest.post_attr(endpoint, 16, [text])
            if 'hex' not in out:
                if 'as4' in out.get('why', '') or (not rest.caps['four'] and h[0] == 0x02):
                    res.stats.hit('rendered_skipped_as4_to_as2_peer')
                    continue
                res.fail('C17', 'REST %s does not accept a text the decoder renders (%s)' % (endpoint, kind),
                         {'octets': raw.hex(), 'text': text, 'rest': out, 'peer': rest.kind, 'endpoint': endpoint}, key='rendered-rejected:' + kind)
                continue
            d2 = I.ext_parse(bytes.fromhex(out['hex'])[3:])
            if d2 != {'ok': [text]}:
                res.fail('C17', 'the octets produced for a rendered %s text decode to a different text' % kind,
                         {'octets': raw.hex(), 'text': text, 'produced': out['hex'], 'again': d2, 'peer': rest.kind, 'endpoint': endpoint},
                         key='rendered-text:' + kind)


def community_values(r, n_rand):
    vals = sorted(I.bgp_cons.WELL_KNOW_COMMUNITY_INT_2_STR)
    near = set()
    for v in vals:
        near |= {v - 1, v + 1}
    vals += sorted(x for x in near if 0 <= x < 2 ** 32 and x not in I.bgp_cons.WELL_KNOW_COMMUNITY_INT_2_STR)
    vals += [0, 1, 65535, 65536, 65537, 0xFFFE0000, 0xFFFEFFFF, 0xFFFF0006, 0xFFFF0299, 0xFFFF029B, 0xFFFFFF00, 0xFFFFFF05,
             0xFFFFFFFE, 0xFFFFFFFF, 0x7FFFFFFF, 0x80000000]
    vals += [(a << 16) | b for a in (0, 1, 9, 10, 65535) for b in (0, 1, 9, 10, 65535)]
    vals += [r.randrange(2 ** 32) for _ in range(n_rand)]
    vals += [0xFFFF0000 | r.randrange(65536) for _ in range(n_rand // 4)]
    return vals


def oracle_comm(res, rest, endpoint, r, n_rand):
    names = I.bgp_cons.WELL_KNOW_COMMUNITY_INT_2_STR
    for v in community_values(r, n_rand):
        rfc = struct.pack('!I', v)
        cls = 'well-known' if v in names else 'plain'
        res.stats.case(('oc', v, rest.kind, endpoint), sample={'community': v})
        res.stats.hit('oracle_community_' + cls)
        d = I.comm_parse(rfc)
        if 'ok' not in d or len(d['ok']) != 1:
            res.fail('C17', 'community value does not decode to one text', {'value': v, 'decoded': d}, key='decode:community')
            continue
        text = d['ok'][0]
        if cls == 'well-known' and text != names[v]:
            res.fail('C17', 'well-known community is not rendered by its name', {'value': v, 'text': text}, key='decode:community')
        for t in ([text] if cls == 'plain' else [text, text.lower(), text.upper()]):
            out = rest.post_attr(endpoint, 8, [t])
            if out.get('hex') != 'c00804' + rfc.hex():
                res.fail('C17', 'REST %s does not re-encode community text %r to its value' % (endpoint, t),
                         {'value': v, 'text': t, 'rest': out, 'endpoint': endpoint},
                         key='community:' + (names[v] if cls == 'well-known' else 'plain'))
            elif I.comm_parse(bytes.fromhex(out['hex'])[3:]) != d:
                res.fail('C17', 'community decodes to a different text', {'value': v, 'text': t}, key='text:community')
    # lists
    for _ in range(max(3, n_rand // 20)):
        vs = [r.choice(list(names)) if r.random() < 0.4 else r.randrange(2 ** 32) for _ in range(r.randrange(2, 9))]
        rfc = b''.join(struct.pack('!I', v) for v in vs)
        d = I.comm_parse(rfc)
        out = rest.post_attr(endpoint, 8, d.get('ok'))
        res.stats.case(('ocl', jdump(vs), endpoint))
        if out.get('hex') != 'c008%02x' % len(rfc) + rfc.hex():
            res.fail('C17', 'REST does not re-encode a list of community texts', {'values': vs, 'texts': d, 'rest': out}, key='community:list')


def oracle_large(res, rest, endpoint, r, n_rand):
    pool = [0, 1, 65535, 65536, 2 ** 31 - 1, 2 ** 31, 2 ** 32 - 2, 2 ** 32 - 1]
    ts = [(a, b, c) for a in pool for b in pool for c in pool]
    ts += [tuple(r.choice(pool) if r.random() < 0.3 else r.randrange(2 ** 32) for _ in range(3)) for _ in range(n_rand)]
    for t in ts:
        rfc = struct.pack('!III', *t)
        res.stats.case(('ol', jdump(t), rest.kind, endpoint), sample={'large': t})
        res.stats.hit('oracle_large')
        d = I.large_parse(rfc)
        if 'ok' not in d or len(d['ok']) != 1:
            res.fail('C17', 'large community does not decode to one text', {'value': t, 'decoded': d}, key='decode:large')
            continue
        out = rest.post_attr(endpoint, 32, d['ok'])
        if out.get('hex') != 'e0200c' + rfc.hex():
            res.fail('C17', 'REST %s does not re-encode large-community text %r to its value' % (endpoint, d['ok'][0]),
                     {'value': t, 'text': d['ok'][0], 'rest': out}, key='large')
        elif I.large_parse(bytes.fromhex(out['hex'])[3:]) != d:
            res.fail('C17', 'large community decodes to a different text', {'value': t}, key='text:large')
    for _ in range(max(3, n_rand // 20)):
        lst = [tuple(r.randrange(2 ** 32) for _ in range(3)) for _ in range(r.randrange(2, 6))]
        rfc = b''.join(struct.pack('!III', *t) for t in lst)
        d = I.large_parse(rfc)
        out = rest.post_attr(endpoint, 32, d.get('ok'))
        res.stats.case(('oll', jdump(lst), endpoint))
        if out.get('hex') != 'e020%02x' % len(rfc) + rfc.hex():
            res.fail('C17', 'REST does not re-encode a list of large-community texts', {'values': lst, 'rest': out}, key='large:list')


# ------------------------------------------------------------------------------------------------ correspondence

WS = [' ', '  ', '\t', '\n', ' \t']
BAD_NUMS = ['', '-1', '+5', '1_0', '1__0', '_1', '1_', ' 7 ', '0x10', '1.5', 'abc', '65536', '4294967296', '00012', '-0', '+', '-',
            '1 0', '99999999999999999999999999999999999999999', '340282366920938463463374607431768211456',
            '340282356779733661637539395458142568447', '340282356779733661637539395458142568448', '16777217', '16777219',
            '9007199254740993', '-16777217', '-1000']


def text_variants(r, text):
    """strings around a rendered text that exercise split/strip/lower/',' handling and the failure paths"""
    key, _, val = text.partition(':')
    out = [text, key.upper() + ':' + val, key.title() + ':' + val, r.choice(WS) + key + r.choice(WS) + ':' + r.choice(WS) + val + r.choice(WS),
           key + ':' + val + ',' + val, key + ':' + val + ' , ' + val, key + ':' + val + ',', key + ':,' + val, key + ':', key, '',
           ':' + val, key + 'x:' + val, key + '::' + val, key + ':' + val + ':1', key + ':' + val.lower(), key + ':' + val.upper(),
           key + ' :' + val.replace(':', ' : '), key + ':' + val.replace(',', ' , ')]
    parts = val.split(':')
    for i in range(len(parts)):
        for bad in r.sample(BAD_NUMS, 6):
            p2 = list(parts)
            p2[i] = bad
            out.append(key + ':' + ':'.join(p2))
    if len(parts) > 1:
        out.append(key + ':' + ':'.join(parts[:-1]))
        out.append(key + ':' + ':'.join(reversed(parts)))
    return out


EXTRA_TEXTS = [
    'traffic-action:s:1,t:1', 'traffic-action:T:1,S:0', 'traffic-action:S:1', 'traffic-action:T:1', 'traffic-action:x:1',
    'traffic-action:S:1,T:1,S:0', 'traffic-action:S:2,T:3', 'traffic-action:S:128,T:0', 'traffic-action:S:127,T:1', 'traffic-action:S:-1,T:2',
    'traffic-action:S', 'traffic-action:S:1,T', 'traffic-action: S : 1 , T : 0', 'traffic-action:S:x', 'traffic-action:', 'TRAFFIC-ACTION:S:1,T:0',
    'color-00:5', 'color-01:4294967295', 'color-10:0', 'color-11:7', 'color-11:4294967296', 'color-00:x', 'color:1,2,3', 'color: 5 ',
    'traffic-marking-dscp:63', 'traffic-marking-dscp:255', 'traffic-marking-dscp:256', 'traffic-marking-dscp:1,2', 'traffic-marking-dscp:x',
    'traffic-marking:5', 'traffic-rate:1:1.5', 'traffic-rate:1', 'traffic-rate:1:2:3', 'dmzlink-bw:1:1000,2:2000', 'dmzlink-bw:65536:1',
    'redirect-nexthop:1.2.3.4', 'redirect-nexthop:1.2.3.4:x', 'redirect-nexthop:1.2.3:1', 'redirect-nexthop:01.2.3.4:1', 'redirect-nexthop:1.2.3.4:65536',
    'redirect-nexthop:1.2.3.4:-1', 'redirect-nexthop: 1.2.3.4:1', 'redirect-nexthop:1.2.3.4 :1', 'redirect-nexthop:256.1.1.1:0', 'redirect-nexthop:1.2.3.4:0:1',
    'redirect-vrf:1:2,3:4', 'redirect-vrf: 1:2 ', 'redirect-vrf:1', 'redirect-vrf:65536:1', 'redirect-vrf:1:4294967296',
    'route-target:1.2.3.4:5,65000:1,70000:2', 'route-target:70000:65536', 'route-target:1.2.3.4:65536', 'route-target:1.2.3:5', 'route-target:1.2.3.4.5:5',
    'route-target:.:5', 'route-target:1.2.3.4', 'route-target:65535:1', 'route-target:65536:1', 'route-target:-1:1', 'route-target:4294967296:1',
    'route-target:x:1', 'route-target:1', 'route-target: 65000 : 5', 'route-target:65000:5:6', 'route-target:01.2.3.4:5', 'route-target:00100:5',
    'route-origin:1.2.3.4:5,65000:1,70000:2', 'route-origin:70000:65536', 'route-origin:65535:1', 'route-origin:65536:1', 'route-origin:-1:1',
    'route-origin:x:1', 'route-origin:1', 'route-origin:4294967296:1', 'route-origin: 65000 : 5', 'route-origin:1:4294967296',
    'esi-label:1:100', 'esi-label:1', 'esi-label:256:1', 'esi-label:1:1048576', 'esi-label:1:268435455', 'esi-label:1:268435456', 'esi-label:-1:1',
    'esi-label:1:-1', 'esi-label: 1 : 100 ', 'esi-label:1:2:3', 'esi-label:x:1', 'mac-mobility:1:4294967295', 'mac-mobility:1:4294967296',
    'mac-mobility:256:1', 'mac-mobility:1', 'mac-mobility:1:x', 'MAC-Mobility:0:0',
    'es-import:AA-BB-CC-DD-EE-FF', 'es-import:aa-bb-cc-dd-ee-ff', 'es-import:AA-BB-CC-DD-EE', 'es-import:AA-BB-CC-DD-EE-FF-00', 'es-import:A-B-C-D-E-F',
    'es-import:AA-BB-CC-DD-EE-GG', 'es-import:AA-BB-CC-DD-EE-100', 'es-import:AA-BB-CC-DD-EE-', 'es-import:', 'es-import:AABBCCDDEEFF', 'es-import:AA:BB',
    'es-import:00-00-00-00-00-01,00-00-00-00-00-02', 'router-mac:0A-0B-0C-0D-0E-0F', 'router-mac:0a-0B-0c-0D-0e-0F', 'router-mac: 0A-0B-0C-0D-0E-0F ',
    'encapsulation:8', 'encapsulation:65536', 'encapsulation:4294967295', 'encapsulation:4294967296', 'encapsulation:8,9', 'encapsulation:',
    'unknown-kind:1:2', 'route target:1:2', 'no colon at all', ':', '::', 'route-target', ' : ', 'color:', 'ROUTE-TARGET:1:2',
]


def corr_tables(res, xd):
    m = xd.call({'op': 'extcomm.tables'})
    i = I.tables()
    res.stats.case('tables')
    for k in ('str_dict', 'dict', 'dict1'):
        if sorted(map(jdump, m[k])) != sorted(map(jdump, i[k])):
            res.disagree('constant table ' + k, k, i[k], m[k])


def corr_primitives(res, xd, r, tier):
    n = 300 if tier == 'quick' else 20000
    alpha = '0123456789' * 3 + '+-_ \t\n.:,aAfFgxX'
    strs = list(BAD_NUMS) + ['0', '7', '10', '255', '256', ' 12', '12 ', '\t12\n', '1_2_3', '12_', '+0', '-12', '--1', '+-1', '0_0', '\x0b5\x0c', '5\r']
    strs += [''.join(r.choice(alpha) for _ in range(r.randrange(0, 7))) for _ in range(n)]
    strs += [str(r.randrange(10 ** r.randrange(1, 45))) for _ in range(n // 3)]
    strs = [s for s in strs if s.isascii()]
    for op, f in (('xc.pyint', I.py_int),):
        mo = xd.batch([{'op': op, 's': s} for s in strs])
        for s, m in zip(strs, mo):
            res.stats.case((op, s), sample=None)
            res.stats.hit('prim_' + op)
            if f(s) != m:
                res.disagree(op, s, f(s), m)
    hexs = ['', '0', 'a', 'A', 'ff', 'FF', '0A', '100', 'g', 'fg', '00ff', 'abcdef', 'ABCDEF0123456789', '0x', '0X1f', '0x_1f', '0x__1', '0x1_', '_0x1',
            '-0x1', '+0Xa', ' ff ', '\tff\n', 'f_f', 'f__f', '_f', 'f_', '0x0x1', '00x1', '0xg', '- 1', '+-1', '0_x1', 'x1', '0', '0_0', '-', '+', ' ']
    hexs += [''.join(r.choice('0123456789abcdefABCDEFgG') for _ in range(r.randrange(0, 5))) for _ in range(n)]
    hexs += [''.join(r.choice('00xX_+- 19aF') for _ in range(r.randrange(0, 7))) for _ in range(n)]
    mo = xd.batch([{'op': 'xc.pyhex', 's': s} for s in hexs])
    for s, m in zip(hexs, mo):
        res.stats.case(('xc.pyhex', s))
        res.stats.hit('prim_xc.pyhex')
        if I.py_hex(s) != m:
            res.disagree('xc.pyhex', s, I.py_hex(s), m)
    ips = ['1.2.3.4', '0.0.0.0', '255.255.255.255', '256.1.1.1', '1.2.3', '1.2.3.4.5', '01.2.3.4', '1.2.3.04', '1.2.3.', '.1.2.3', '1..2.3', '',
           '1.2.3.4 ', ' 1.2.3.4', '1.2.3.a', '1.2.3.-4', '1.2.3.+4', '1.2.3.4_0', '00.0.0.0', '0.0.0.00', '1.2.3.0255', '999.1.1.1', '1', '16909060']
    ips += ['.'.join(str(r.choice([0, 1, 9, 10, 99, 100, 255, 256, r.randrange(300)])) for _ in range(r.choice([3, 4, 4, 4, 4, 5]))) for _ in range(n)]
    ips += [''.join(r.choice('0123456789.. ') for _ in range(r.randrange(0, 12))) for _ in range(n // 3)]
    mo = xd.batch([{'op': 'xc.ipv4', 's': s} for s in ips])
    for s, m in zip(ips, mo):
        res.stats.case(('xc.ipv4', s))
        res.stats.hit('prim_xc.ipv4')
        if I.py_ipv4(s) != m:
            res.disagree('xc.ipv4', s, I.py_ipv4(s), m)
    texts = [''.join(r.choice('aZ:,. \t\n-_19') for _ in range(r.randrange(0, 10))) for _ in range(n)] + ['', ' ', ':', 'a:b:c', ',,', ' a ', '\x0b\x0ca\r\n']
    mo = xd.batch([{'op': 'xc.strip', 's': s} for s in texts])
    for s, m in zip(texts, mo):
        res.stats.case(('xc.strip', s))
        if {'ok': s.strip()} != m:
            res.disagree('xc.strip', s, s.strip(), m)
    mo = xd.batch([{'op': 'xc.lower', 's': s} for s in texts])
    for s, m in zip(texts, mo):
        res.stats.case(('xc.lower', s))
        if {'ok': s.lower()} != m:
            res.disagree('xc.lower', s, s.lower(), m)
    for sep in (':', ',', '-', '.'):
        mo = xd.batch([{'op': 'xc.split', 's': s, 'sep': sep} for s in texts])
        for s, m in zip(texts, mo):
            res.stats.case(('xc.split', sep, s))
            if {'ok': s.split(sep)} != m:
                res.disagree('xc.split', [s, sep], s.split(sep), m)
        mo = xd.batch([{'op': 'xc.split1', 's': s, 'sep': sep} for s in texts])
        for s, m in zip(texts, mo):
            res.stats.case(('xc.split1', sep, s))
            if {'ok': s.split(sep, 1)} != m:
                res.disagree('xc.split1', [s, sep], s.split(sep, 1), m)
    res.stats.hit('prim_strings', len(texts) * 10)
    # struct 'f'
    ints = [0, 1, -1, 2, 3, 2 ** 24 - 1, 2 ** 24, 2 ** 24 + 1, 2 ** 24 + 2, 2 ** 24 + 3, 2 ** 25 + 2, 2 ** 25 + 6, 2 ** 53, 2 ** 53 + 1, 2 ** 53 + 2, 2 ** 53 + 3,
            2 ** 54 + 2, 2 ** 54 + 6, 2 ** 127, 2 ** 128 - 2 ** 104, 2 ** 128 - 2 ** 103 - 1, 2 ** 128 - 2 ** 103, 2 ** 128, 2 ** 128 - 1,
            2 ** 24 + 1 + 2 ** 60, (2 ** 24 + 1) * 2 ** 30, (2 ** 24 + 1) * 2 ** 30 + 1, (2 ** 24 + 1) * 2 ** 30 - 1, (2 ** 25 - 1) * 2 ** 40,
            (2 ** 54 - 1), (2 ** 54 - 1) * 4, 2 ** 1023, 2 ** 1024 - 2 ** 970, 2 ** 1024 - 2 ** 970 - 1, 2 ** 1024, 2 ** 1100, 10 ** 38, 10 ** 39,
            4 * 10 ** 38, 340282346638528859811704183484516925440, 16777217 * 2 ** 29 + 1, 2 ** 77 + 2 ** 53 + 2 ** 24]
    ints += [-x for x in ints[3:20]]
    for _ in range(n):
        k = r.choice([10, 24, 25, 26, 30, 53, 54, 55, 60, 80, 100, 127, 128])
        x = r.getrandbits(k) | (1 << (k - 1))
        if r.random() < 0.4:      # values on / next to a rounding tie
            sh = max(1, k - 24)
            x = ((x >> sh) << sh) + r.choice([0, 1 << (sh - 1), (1 << (sh - 1)) + 1, (1 << (sh - 1)) - 1 if sh > 1 else 0])
        ints.append(x if r.random() < 0.9 else -x)
    mo = xd.batch([{'op': 'xc.packf', 'i': x} for x in ints])
    for x, m in zip(ints, mo):
        res.stats.case(('xc.packf', x))
        res.stats.hit('prim_xc.packf')
        if I.py_packf(x) != m:
            res.disagree('xc.packf', x, I.py_packf(x), m)
    bits = [0, 1, 0x80000000, 0x3f800000, 0xbf800000, 0x3fc00000, 0x7f7fffff, 0x7f800000, 0x7f800001, 0xff800000, 0xffc00000, 0x7fffffff,
            0x00800000, 0x007fffff, 0x4b000000, 0x4b7fffff, 0x4b800000, 0x4a800000, 0x4affffff, 0xcb000001, 0x3f7fffff, 0xbf7fffff, 0x80000001]
    bits += [r.getrandbits(32) for _ in range(n)]
    bits += [(r.choice([0, 1]) << 31) | (r.choice([0, 1, 126, 127, 128, 149, 150, 151, 254, 255]) << 23) | r.getrandbits(23) for _ in range(n)]
    mo = xd.batch([{'op': 'xc.unpackf', 'bits': x} for x in bits])
    for x, m in zip(bits, mo):
        res.stats.case(('xc.unpackf', x))
        res.stats.hit('prim_xc.unpackf')
        if I.py_unpackf(x) != m:
            res.disagree('xc.unpackf', '%08x' % x, I.py_unpackf(x), m)


CODES = [0x0002, 0x0102, 0x0202, 0x0003, 0x0103, 0x0203, 0x0800, 0x8006, 0x8007, 0x8008, 0x8009, 0x030b, 0x030c, 0x0600, 0x0601, 0x0602,
         0x0603, 0x4004]
OTHER_CODES = [0x0000, 0x0001, 0x0004, 0x0101, 0x0104, 0x0201, 0x0204, 0x0306, 0x030d, 0x030a, 0x0604, 0x4301, 0x4003, 0x4005, 0x8005, 0x800a,
               0x0801, 0x07ff, 0xffff, 0x4002, 0x4102, 0x8002]


def corr_parse(res, xd, r, tier):
    n = 400 if tier == 'quick' else 40000
    cases = [b'']
    vpool = [b'\x00' * 6, b'\xff' * 6, b'\x00\x00\x00\x00\x00\x01', b'\x00\x01\x00\x00\x00\x00', b'\x7f\x80\x00\x00\x7f\x80', b'\xff\xff\x7f\x80\x00\x00',
             b'\x00\x00\x7f\xc0\x00\x00', b'\x00\x00\xff\x80\x00\x00', b'\x00\x00\xbf\x80\x00\x00', b'\x00\x00\x80\x00\x00\x00', b'\x00\x00\x3f\xc0\x00\x00',
             b'\x01\x02\x03\x04\x05\x06', b'\xfd\xe8\x44\x7a\x00\x00', b'\x00\x00\x4b\x7f\xff\xff', b'\x00\x00\x7f\x7f\xff\xff', b'\xaa\xbb\xcc\xdd\xee\xff',
             b'\x00\x00\x00\xff\xff\xff', b'\x80\x00\x00\x00\x00\x10', b'\x00\x00\x00\x00\x00\x3f', b'\x00\x00\x00\x00\x00\xfc']
    for c in CODES + OTHER_CODES:
        for v in vpool:
            cases.append(struct.pack('!H', c) + v)
    for c in range(256):                                  # every type octet with sub-types around the known ones
        for s in (0, 1, 2, 3, 4, 6, 7, 8, 9, 0x0b, 0x0c):
            cases.append(bytes([c, s]) + b'\x00\x01\x00\x00\x00\x02')
    for ln in list(range(1, 8)) + [9, 12, 15, 17, 23]:    # lengths that are no multiple of 8
        cases.append(bytes(range(ln)))
    for x in range(256):                                  # the last octet (traffic-action bits, DSCP, label nibble)
        cases.append(b'\x80\x07' + bytes([x]) * 6)
        cases.append(b'\x80\x09\x00\x00\x00\x00' + bytes([x, x ^ 0xff]))
        cases.append(b'\x06\x01' + bytes([x, 1, 2, x, x ^ 0x55, x]))
    for _ in range(n):
        k = r.randrange(1, 5)
        b = b''
        for _ in range(k):
            c = r.choice(CODES) if r.random() < 0.85 else r.choice(OTHER_CODES + [r.randrange(65536)])
            b += struct.pack('!H', c) + bytes(r.choice([0, 1, 0x7f, 0x80, 0xff, r.randrange(256)]) for _ in range(6))
        if r.random() < 0.05:
            b = b[:r.randrange(len(b))]
        cases.append(b)
    mo = xd.batch([{'op': 'extcomm.parse', 'hex': b.hex()} for b in cases])
    for b, m in zip(cases, mo):
        io = I.ext_parse(b)
        res.stats.case(('p', b.hex()), nontrivial=len(b) > 0, sample={'parse': b.hex(), 'impl': io})
        res.stats.hit('parse_' + ('ok' if 'ok' in io else 'err'))
        if io != m:
            res.disagree('ExtCommunity.parse', b.hex(), io, m)
    return cases


def corr_texts(res, xd, r, tier, peers, decoded_texts):
    """REST level: texts -> attribute octets / refusal / failure, both endpoints, three kinds of peer"""
    texts = []
    pool = list(decoded_texts)
    r.shuffle(pool)
    for t in pool[:120 if tier == 'quick' else 1000]:
        texts += [[v] for v in text_variants(r, t)]
    texts += [[t] for t in EXTRA_TEXTS]
    for _ in range(60 if tier == 'quick' else 1500):
        texts.append([r.choice(pool + EXTRA_TEXTS) for _ in range(r.randrange(0, 5))])
    texts.append([pool[0]] * 31)
    texts.append([pool[0]] * 32)        # 256 octets: the 1-octet length overflows
    texts.append([])
    for kind, rest in peers.items():
        mo = xd.batch([{'op': 'extcomm.rest', 'texts': t, 'caps': rest.caps} for t in texts])
        mt = xd.batch([{'op': 'extcomm.translate', 'texts': t, 'caps': rest.caps} for t in texts])
        for i, (t, m, mtr) in enumerate(zip(texts, mo, mt)):
            if not all(s.isascii() for s in t):
                continue
            if not t:
                continue            # attr[16] == [] : `if attr` / empty attribute handling is C16's business
            for endpoint in (('json_to_bin', 'send/update') if (i % 3 == 0 or tier != 'quick') else ('json_to_bin',)):
                io = rest.post_attr(endpoint, 16, t)
                res.stats.case(('r', kind, endpoint, jdump(t)), sample={'rest': t, 'peer': kind, 'impl': io})
                res.stats.hit('rest_' + next(iter(io)))
                if io != m:
                    res.disagree('REST %s (peer %s)' % (endpoint, kind), t, io, m)
            it = rest.translate(t)
            if it is None:
                res.stats.skipped += 1
                continue
            res.stats.case(('t', kind, jdump(t)))
            res.stats.hit('translate_' + next(iter(it)))
            if 'ok' in mtr and 'ok' in it:
                # the seam is reached only when the translation went through; compare the item lists
                if json.loads(json.dumps(it)) != mtr:
                    res.disagree('REST translation (peer %s)' % kind, t, it, mtr)
            elif 'ok' in mtr or 'ok' in it or it != mtr:
                res.disagree('REST translation outcome (peer %s)' % kind, t, it, mtr)


def corr_construct(res, xd, r, tier, peers, decoded_texts):
    """ExtCommunity.construct on item lists of the shapes the REST layer produces"""
    items = []
    pool = list(decoded_texts)
    r.shuffle(pool)
    rest = peers['as4']
    srcs = [[v] for t in pool[:80 if tier == 'quick' else 2000] for v in text_variants(r, t)] + [[t] for t in EXTRA_TEXTS]
    mt = xd.batch([{'op': 'extcomm.translate', 'texts': t, 'caps': rest.caps} for t in srcs])
    for m in mt:
        if 'ok' in m and m['ok']:
            items.append(m['ok'])
    items += [[[2, '1:2'], [99, 'ignored'], [3, '3:4']], [[99, 'x']], [], [[32777, 5]] * 33, [[779, '1']] * 32, [[779, '1']] * 31]
    mo = xd.batch([{'op': 'extcomm.construct', 'items': it} for it in items])
    for it, m in zip(items, mo):
        io = I.ext_construct(it)
        res.stats.case(('c', jdump(it)), nontrivial=bool(it), sample={'construct': it, 'impl': io})
        res.stats.hit('construct_' + next(iter(io)))
        if io != m:
            res.disagree('ExtCommunity.construct', it, io, m)


def corr_commtext(res, xd, r, tier):
    n = 200 if tier == 'quick' else 20000
    names = list(I.bgp_cons.WELL_KNOW_COMMUNITY_INT_2_STR.values())
    texts = [[t] for t in names] + [[t.lower()] for t in names] + [[t.upper()] for t in names] + [[t.title()] for t in names]
    texts += [['0:0'], ['65535:65535'], ['65536:0'], ['0:65536'], ['65535:65536'], ['1'], ['1:2:3'], [''], [':'], ['a:b'], ['NO_EXPORT '], ['NOEXPORT'],
              ['1:2', 'NO_EXPORT', '3:4'], ['1:2'] * 63, ['1:2'] * 64, [], ['007:08'], ['4294967295:0']]
    texts += [['%d:%d' % (r.randrange(70000), r.randrange(70000))] for _ in range(n)]
    mo = xd.batch([{'op': 'commtext.construct', 'texts': t} for t in texts])
    for t, m in zip(texts, mo):
        io = I.comm_construct(t)
        res.stats.case(('cc', jdump(t)))
        res.stats.hit('commtext_construct')
        if io != m:
            res.disagree('Community.construct(text)', t, io, m)
    blobs = [b'', b'\x00', b'\x00' * 3, b'\x00' * 5, b'\x00' * 6] + [struct.pack('!I', v) for v in community_values(r, n)]
    blobs += [b''.join(struct.pack('!I', r.randrange(2 ** 32)) for _ in range(r.randrange(1, 6))) for _ in range(n // 4)]
    mo = xd.batch([{'op': 'commtext.parse', 'hex': b.hex()} for b in blobs])
    for b, m in zip(blobs, mo):
        io = I.comm_parse(b)
        res.stats.case(('cp', b.hex()))
        res.stats.hit('commtext_parse')
        if io != m:
            res.disagree('Community.parse', b.hex(), io, m)
    lt = [['0:0:0'], ['4294967295:4294967295:4294967295'], ['4294967296:0:0'], ['1:2:3', '4:5:6'], ['1:2:3'] * 21, ['1:2:3'] * 22, [], ['x:1:2'], ['']]
    lt += [['%d:%d:%d' % tuple(r.randrange(2 ** 32) for _ in range(3))] for _ in range(n)]
    mo = xd.batch([{'op': 'largetext.construct', 'texts': t} for t in lt])
    for t, m in zip(lt, mo):
        io = I.large_construct(t)
        res.stats.case(('lc', jdump(t)))
        res.stats.hit('largetext_construct')
        if io != m:
            res.disagree('LargeCommunity.construct(text)', t, io, m)
    lb = [b'', b'\x00' * 4, b'\x00' * 8, b'\x00' * 11, b'\x00' * 13, b'\xff' * 12, b'\x80\x00\x00\x00' * 3]
    lb += [bytes(r.getrandbits(8) for _ in range(12 * r.randrange(1, 4))) for _ in range(n // 2)]
    mo = xd.batch([{'op': 'largetext.parse', 'hex': b.hex()} for b in lb])
    for b, m in zip(lb, mo):
        io = I.large_parse(b)
        res.stats.case(('lp', b.hex()))
        res.stats.hit('largetext_parse')
        if io != m:
            res.disagree('LargeCommunity.parse', b.hex(), io, m)


def model_agrees_with_spec(res, xd, cases):
    """instances of the C17 theorems on the executable model (a cheap cross-check of model, spec and glue)"""
    sp = xd.batch([{'op': 'spec.rfcextcomm', 'kind': k, 'fields': f} for k, f in cases])
    ok = [(c, s) for c, s in zip(cases, sp) if s.get('inrange')]
    pr = xd.batch([{'op': 'extcomm.parse', 'hex': s['hex']} for _, s in ok])
    texts = [p['ok'] if 'ok' in p else None for p in pr]
    rs = xd.batch([{'op': 'extcomm.rest', 'texts': t or [], 'caps': {'remote': True, 'four': True}} for t in texts])
    for ((k, f), s), t, o in zip(ok, texts, rs):
        res.stats.case(('ms', k, jdump(f)))
        res.stats.hit('model_vs_spec')
        if t != [s['text']] or o != {'hex': 'c01008' + s['hex']}:
            res.disagree('model instance of the C17 theorem', {'kind': k, 'fields': f}, {'rfc': s['hex']}, {'text': t, 'rest': o})


# ------------------------------------------------------------------------------------------------ entry points

def run(seed, tier, driver):
    res = SuiteResult(NAME)
    r = rng_for(seed, NAME, tier)
    xd = I.XcDriver(driver)
    try:
        n_rand = {'quick': 12, 'search': 60}.get(tier, 400)
        _T0[0] = time.time()
        corr_tables(res, xd)
        corr_primitives(res, xd, r, 'quick' if tier == 'search' else tier)
        _trace('primitives done')
        pcases = corr_parse(res, xd, r, 'quick' if tier == 'search' else tier)
        _trace('parse done')
        corr_commtext(res, xd, r, 'quick' if tier == 'search' else tier)
        _trace('commtext done')
        cases = kind_cases(r, n_rand)
        model_agrees_with_spec(res, xd, cases)
        _trace('model vs spec done (%d kind cases)' % len(cases))
        decoded = []
        for b in pcases:
            d = I.ext_parse(b)
            if 'ok' in d:
                decoded += [t for t in d['ok'] if isinstance(t, str)]
        decoded = sorted(set(decoded))
        multi = []
        for _ in range(max(4, n_rand)):
            lst = [r.choice(cases) for _ in range(r.randrange(2, 7))]
            multi.append(lst)
        multi.append([cases[0]] * 31)
        # two and three communities of the SAME kind with different fields in one attribute, for every kind
        by_kind = {}
        for kf in cases:
            by_kind.setdefault(kf[0], []).append(kf)
        for kd in sorted(by_kind):
            lst = by_kind[kd]
            if len(lst) >= 2:
                multi.append([lst[0], lst[-1]])
                multi.append([lst[-1], lst[len(lst) // 2], lst[0]])
        for kind in ('as4', 'as2', 'nocaps'):
            rest = I.Rest(kind)
            if rest.state != 'ESTABLISHED':
                res.disagree('session setup', kind, rest.state, 'ESTABLISHED')
                continue
            if rest.observed_caps != rest.caps:
                res.disagree('peer capabilities seen by the REST layer', kind, rest.observed_caps, rest.caps)
            peers = {kind: rest}
            # property oracle: both endpoints; the kinds with a 4-octet AS only towards a peer that advertised the
            # capability (the views refuse them otherwise: stated restriction of C17)
            if kind != 'nocaps':
                mlt = [l for l in multi if rest.caps['four'] or not any(k.endswith('as4') for k, _ in l)]
                for endpoint in ('json_to_bin', 'send/update'):
                    sub = cases if (endpoint == 'json_to_bin' or tier != 'quick') else cases[::5]
                    oracle_ext(res, xd, rest, endpoint, sub, mlt if endpoint == 'json_to_bin' else mlt[:40])
                    if kind == 'as4':
                        oracle_rendered(res, rest, endpoint, r, n_rand)
                        oracle_comm(res, rest, endpoint, r, n_rand * (4 if endpoint == 'json_to_bin' else 1))
                        oracle_large(res, rest, endpoint, r, n_rand * (2 if endpoint == 'json_to_bin' else 0))
            else:
                oracle_ext(res, xd, rest, 'json_to_bin', cases[::5])
                oracle_ext(res, xd, rest, 'send/update', cases[2::11])
            _trace('oracle done for peer ' + kind)
            corr_texts(res, xd, r, 'quick' if tier == 'search' else tier, peers, decoded)
            _trace('REST correspondence done for peer ' + kind)
            if kind == 'as4':
                corr_construct(res, xd, r, 'quick' if tier == 'search' else tier, peers, decoded)
        # the same agent after EARLIER sessions with other peers (one without the 4-octet-AS capability, one without any):
        # what the REST interface accepts and produces for the present peer does not depend on who was there before
        rest = I.Rest('as4', history=('as2', 'nocaps'))
        if rest.state != 'ESTABLISHED':
            res.disagree('session setup after earlier sessions', 'as2, nocaps, as4', rest.state, 'ESTABLISHED')
        else:
            for endpoint in ('json_to_bin', 'send/update'):
                oracle_ext(res, xd, rest, endpoint, cases[::3] if tier == 'quick' else cases)
            res.stats.hit('oracle_after_earlier_sessions')
    finally:
        xd.close()
    return res


def _one(res, xd, case):
    rest = I.Rest(case.get('peer', 'as4'))
    if 'kind' in case:
        oracle_ext(res, xd, rest, case.get('endpoint', 'json_to_bin'), [(case['kind'], case['fields'])])
    elif 'texts' in case:
        m = xd.call({'op': 'extcomm.rest', 'texts': case['texts'], 'caps': rest.caps})
        io = rest.post_attr(case.get('endpoint', 'json_to_bin'), 16, case['texts'])
        res.stats.case(('replay', jdump(case)))
        if io != m:
            res.disagree('REST (replay)', case, io, m)


def replay_witness(witness, driver):
    """{'suite': 'commtext', 'case': {'kind':..,'fields':[..],'peer':..,'endpoint':..}}"""
    res = SuiteResult(NAME)
    xd = I.XcDriver(driver)
    try:
        _one(res, xd, witness['case'])
    finally:
        xd.close()
    return res


def replay(path, driver):
    res = SuiteResult(NAME)
    xd = I.XcDriver(driver)
    try:
        doc = json.load(open(path))
        for f in doc.get('failures', []):
            rp = f.get('replay', {})
            if 'kind' in rp:
                _one(res, xd, rp)
        for d in doc.get('disagreements', []) + [x for b in doc.get('broken_correspondence', []) for x in b.get('disagreements', [])]:
            if isinstance(d.get('case'), list) and d.get('what', '').startswith('REST'):
                _one(res, xd, {'texts': d['case']})
    finally:
        xd.close()
    return res
