"""Suite `decoders` (C11): every top-level decoder of the real code under a CPU budget on (a) all short byte strings,
(b) every 1-octet and length-field mutation of the valid encodings found in the repo's own tests (this reaches every
attribute / NLRI / TLV decoder through Update.parse, including the ones the Lean model does not cover yet), (c) seeded
random and mutated inputs up to 4096 octets.  Oracle: no call exceeds the budget; an UPDATE body whose two length fields
are in range yields a result object.  Correspondence: the Lean model's Update.parse / Open.parse / ... on the same inputs."""
import itertools
import struct

from lib.base import SuiteResult, rng_for, has_unmodelled
from lib import astscan
from gen import values as G
import impl_codec as I


def in_range(b):
    if len(b) < 2:
        return False
    wl = struct.unpack('!H', b[:2])[0]
    return wl + 4 <= len(b)


def mutations(r, b, tier):
    """every position: a few 1-octet substitutions; every plausible length field: boundary values; truncations"""
    out = []
    n = len(b)
    step = 1 if (tier != 'quick' or n <= 64) else max(1, n // 48)
    for i in range(0, n, step):
        for v in (0, 1, 0xff, b[i] ^ 0x80, (b[i] + 1) & 255, (b[i] - 1) & 255, r.getrandbits(8)):
            if v != b[i]:
                out.append(b[:i] + bytes([v]) + b[i + 1:])
    for i in range(0, n - 1, step):
        for v in (0, 1, 0xffff, n, n + 1):
            out.append(b[:i] + struct.pack('!H', v & 0xffff) + b[i + 2:])
    for cut in range(0, n, max(1, step)):
        out.append(b[:cut])
    return out


def nlri_decoders_directly(res, r, tier):
    """C11 names every NLRI decoder, also those no attribute decoder dispatches to in this tree (IPv6 flowspec): every class
    under yabgp/message/attribute/nlri whose `parse` takes the octets as its first argument is called directly with all
    strings of up to 2 octets, edge-valued strings of 3 and 4, and short random strings.  Returning or raising are both fine
    here (the "never raises" clause is about Update.parse); not finishing within the CPU budget is not."""
    import importlib
    import pkgutil
    import inspect
    from lib.base import with_budget
    import yabgp.message.attribute.nlri as pkg
    inputs = [bytes(t) for n in (0, 1, 2) for t in itertools.product(range(256), repeat=n)]
    inputs += [bytes(t) for n in (3, 4) for t in itertools.product(G_EDGE, repeat=n)]
    inputs += [bytes(r.getrandbits(8) for _ in range(r.choice([3, 5, 8, 13, 21, 40]))) for _ in range(300 if tier == 'quick' else 6000)]
    if tier == 'quick':
        inputs = inputs[:257] + r.sample(inputs[257:], 2500)
    found = 0
    for mi in pkgutil.walk_packages(pkg.__path__, pkg.__name__ + '.'):
        try:
            mod = importlib.import_module(mi.name)
        except Exception:  # noqa
            continue
        for cname, cls in inspect.getmembers(mod, inspect.isclass):
            if cls.__module__ != mod.__name__ or 'parse' not in cls.__dict__:
                continue
            fn = getattr(cls, 'parse')
            try:
                params = [p for p in inspect.signature(fn).parameters.values()]
            except (TypeError, ValueError):
                continue
            if not params or params[0].kind not in (params[0].POSITIONAL_ONLY, params[0].POSITIONAL_OR_KEYWORD):
                continue
            if any(p.default is p.empty and p.kind in (p.POSITIONAL_ONLY, p.POSITIONAL_OR_KEYWORD) for p in params[1:]):
                continue        # needs more than the octets
            found += 1
            hangs = 0
            i = 0
            while i < len(inputs) and hangs < 2:
                chunk = inputs[i:i + 400]

                def work(chunk=chunk, fn=fn):
                    for b in chunk:
                        try:
                            fn(b)
                        except Exception:   # noqa
                            pass
                st, _ = with_budget(I.BUDGET, work)
                if st == 'hang':
                    for b in chunk:
                        def one(b=b, fn=fn):
                            try:
                                fn(b)
                            except Exception:   # noqa
                                pass
                        s1, _ = with_budget(I.BUDGET, one)
                        if s1 == 'hang':
                            hangs += 1
                            res.fail('C11', 'NLRI decoder %s.%s.parse does not finish within the CPU budget' % (mod.__name__, cname),
                                     {'decoder': '%s.%s.parse' % (mod.__name__, cname), 'hex': b.hex()}, key='hang')
                            break
                i += 400
            res.stats.case(('nlri-direct', mod.__name__, cname), sample=None)
    res.stats.hit('nlri_decoders_called_directly', found)


def run(seed, tier, driver):
    res = SuiteResult('decoders')
    r = rng_for(seed, 'decoders', tier)
    hangs = {}
    nlri_decoders_directly(res, r, tier)

    def check_update(b, asn4, addpath, origin):
        io = I.upd_parse(b, asn4, addpath)
        res.stats.case(('u', b.hex(), asn4, addpath), nontrivial=len(b) > 0, sample=None)
        res.stats.hit('update_' + origin)
        if 'hang' in io:
            res.stats.hit('outcome_hang')
            if hangs.get(origin, 0) < 3:
                hangs[origin] = hangs.get(origin, 0) + 1
                res.fail('C11', 'Update.parse did not finish within the CPU budget',
                         {'decoder': 'Update.parse', 'hex': b.hex(), 'asn4': asn4, 'addpath': addpath}, key='hang')
        elif 'raise' in io:
            res.stats.hit('outcome_raise_' + ('in_range' if in_range(b) else 'out_of_range'))
            if in_range(b):
                res.fail('C11', 'Update.parse raised on a body whose two length fields are in range',
                         {'decoder': 'Update.parse', 'hex': b.hex(), 'asn4': asn4, 'addpath': addpath}, key='update-raises')
        else:
            res.stats.hit('outcome_result_sub_error_%s' % io['sub_error'])
        return io

    upd_cases = []
    # (a) all short strings
    for n in range(0, 3 if tier == 'quick' else 4):
        for t in itertools.product(range(256), repeat=n) if n < 3 else itertools.product(G_EDGE, repeat=n):
            upd_cases.append((bytes(t), False, False, 'short'))
    for t in itertools.product(G_EDGE, repeat=3):
        upd_cases.append((bytes(t), False, False, 'short'))
    # in-range bodies with every short attribute block / NLRI block
    for blk in [bytes(t) for n in (1, 2) for t in itertools.product(G_EDGE, repeat=n)] + [bytes([a, b, c]) for a in (0x40, 0x80, 0xc0, 0x50, 0x90) for b in G_CODES for c in (0, 1, 2, 255)]:
        upd_cases.append((struct.pack('!H', 0) + struct.pack('!H', len(blk)) + blk, False, False, 'short_attr_block'))
        upd_cases.append((struct.pack('!H', 0) + struct.pack('!H', 0) + blk, False, False, 'short_nlri'))
        upd_cases.append((struct.pack('!H', len(blk)) + blk + struct.pack('!H', 0), False, True, 'short_withdraw_addpath'))
    # every attribute type code x value length 0..16 (reaches every registered attribute decoder with every short length)
    for code in range(256):
        for ln in range(0, 17):
            v = bytes((code * 7 + i * 13 + ln) & 255 for i in range(ln))
            for flag in (0x40, 0xd0):
                blk = (bytes([flag, code]) + (struct.pack('!H', ln) if flag & 0x10 else bytes([ln])) + v)
                upd_cases.append((struct.pack('!H', 0) + struct.pack('!H', len(blk)) + blk, code & 1 == 0, False, 'attr_code_x_length'))
    # flow specification NLRI (MP_REACH_NLRI / MP_UNREACH_NLRI, AFI 1 and 2, SAFI 133/134): every boundary value of the one- and
    # two-octet NLRI length (0xf0 0xef is the largest short form; 0xfnnn the extended one), with nothing, too little, exactly
    # enough and too much behind it
    for afi, safi in ((1, 133), (2, 133), (1, 134)):
        for ln in [bytes([x]) for x in (0, 1, 3, 0xef, 0xf0)] + [struct.pack('!H', x) for x in (0xf000, 0xf001, 0xf003, 0xf0ef, 0xf0f0, 0xf7ff,
                                                                                           0xfffd, 0xfffe, 0xffff)]:
            for tail in (b'', b'\x00', b'\x03\x81\x06', b'\x01\x18\x0a\x01\x02', b'\x03\x81\x06' * 5):
                for code, pre in ((15, b''), (14, b'\x00\x00')):
                    v = struct.pack('!HB', afi, safi) + pre + ln + tail
                    blk = bytes([0x90, code]) + struct.pack('!H', len(v)) + v
                    upd_cases.append((struct.pack('!H', 0) + struct.pack('!H', len(blk)) + blk, True, False, 'flowspec_nlri_length'))
    # (b) the repo's own valid encodings, mutated
    lits = astscan.harvest_byte_literals()
    bodies = []
    for b in lits:
        if b[:16] == b'\xff' * 16 and len(b) > 19 and b[18] == 2:
            bodies.append(b[19:])
        elif len(b) >= 4 and len(b) < 4096:
            bodies.append(struct.pack('!H', 0) + struct.pack('!H', len(b)) + b)        # as an attribute block
            for code, flag in ((14, 0x90), (15, 0x90), (29, 0x90), (40, 0xd0), (16, 0xd0), (22, 0xd0), (23, 0xd0), (8, 0xd0)):
                blk = bytes([flag, code]) + struct.pack('!H', len(b)) + b                # as the value of one attribute
                bodies.append(struct.pack('!H', 0) + struct.pack('!H', len(blk)) + blk)
    # inner truncations: the value of one attribute cut at EVERY position while all outer length fields stay consistent, so
    # that the cut reaches the decoder of the family (an NLRI that ends after its length / type octet, a TLV header without
    # body, ...) instead of being rejected by the outer walker
    inner = []
    for b in lits:
        if b[:16] == b'\xff' * 16 or not (4 <= len(b) <= (160 if tier == 'quick' else 1200)):
            continue
        for code, flag in ((14, 0x90), (15, 0x90), (29, 0x90), (40, 0xd0), (16, 0xd0), (22, 0xd0), (23, 0xd0), (8, 0xd0), (32, 0xd0)):
            whole = bytes([flag, code]) + struct.pack('!H', len(b)) + b
            d0 = I.upd_parse(struct.pack('!H', 0) + struct.pack('!H', len(whole)) + whole, True, False)
            if d0.get('sub_error', 1) is not None:
                continue        # this literal is not a value of this attribute
            for cut in range(0, len(b)):
                blk = bytes([flag, code]) + struct.pack('!H', cut) + b[:cut]
                inner.append(struct.pack('!H', 0) + struct.pack('!H', len(blk)) + blk)
    # the same on messages of EVERY family the agent can construct (the generators of suites/construct.py, encoded by the
    # real constructors): each attribute of each message cut at every position
    try:
        from suites import construct as CS
        import impl_construct as IC
        fam_cases = CS.srte_cases() + CS.tunnel_cases(r, 30) + CS.pmsi_cases() + CS.fs6_cases(r, 40) + \
            [c[:4] for c in CS.mp_cases(r, 'quick')] + CS.evf_cases(r, 'quick') + CS.extcomm_cases()
        if tier == 'quick':
            fam_cases = r.sample(fam_cases, min(len(fam_cases), 700))
        built = 0
        for (family, msg, asn4, addpath) in fam_cases:
            out = IC.update_construct(msg, asn4, addpath)
            if not isinstance(out, dict) or 'hex' not in out:
                continue
            wire = bytes.fromhex(out['hex'])
            body = wire[19:]
            if len(body) < 4 or len(body) > 700:
                continue
            wl = struct.unpack('!H', body[:2])[0]
            al = struct.unpack('!H', body[2 + wl:4 + wl])[0]
            attrs = body[4 + wl:4 + wl + al]
            # split into attribute TLVs
            tl = []
            a = attrs
            while len(a) >= 3:
                hl = 4 if a[0] & 0x10 else 3
                ln = struct.unpack('!H', a[2:4])[0] if a[0] & 0x10 else a[2]
                tl.append((a[:2], a[hl:hl + ln]))
                a = a[hl + ln:]
            built += 1
            for i, (hd, val) in enumerate(tl):
                if hd[1] not in (14, 15, 16, 22, 23, 29, 40):
                    continue
                cuts = range(len(val)) if len(val) <= 80 else sorted(set(list(range(0, 40)) + r.sample(range(40, len(val)), 40)))
                for cut in cuts:
                    nv = val[:cut]
                    blk = bytes([hd[0] | 0x10, hd[1]]) + struct.pack('!H', len(nv)) + nv
                    na = b''.join((bytes([h[0] | 0x10, h[1]]) + struct.pack('!H', len(v)) + v) if j != i else blk
                                  for j, (h, v) in enumerate(tl))
                    inner.append(struct.pack('!H', 0) + struct.pack('!H', len(na)) + na)
        res.stats.hit('inner_truncation_sources', built)
    except ImportError as e:       # the construct suite is optional for this one
        res.notes.append('inner truncations of constructed families skipped: %s' % e)
    if tier == 'quick' and len(inner) > 6000:
        inner = r.sample(inner, 6000)
    res.stats.hit('inner_truncations', len(inner))
    for b in inner:
        upd_cases.append((b, True, False, 'inner_truncation'))
    res.stats.hit('corpus_bodies', len(bodies))
    if tier == 'quick':
        r.shuffle(bodies)
        keep = [b for b in bodies if b[:2] != b'\x00\x00' or True][:260]
    else:
        keep = bodies
    for b in keep:
        upd_cases.append((b, True, False, 'corpus'))
        upd_cases.append((b, False, False, 'corpus'))
        muts = mutations(r, b, tier)
        if tier == 'quick' and len(muts) > 160:
            muts = r.sample(muts, 160)
        for m in muts:
            upd_cases.append((m, r.random() < 0.5, r.random() < 0.1, 'corpus_mutation'))
    # (c) random up to 4096 octets, biased to in-range length fields
    for _ in range(300 if tier == 'quick' else 20000):
        n = r.choice([5, 20, 100, 1000, 4077])
        blob = bytes(r.getrandbits(8) for _ in range(n))
        al = r.choice([n, n, r.randint(0, n)])
        upd_cases.append((struct.pack('!H', 0) + struct.pack('!H', al) + blob, r.random() < 0.5, r.random() < 0.2, 'random'))
        wl = r.randint(0, n)
        upd_cases.append((struct.pack('!H', wl) + blob[:wl] + struct.pack('!H', n - wl) + blob[wl:], False, r.random() < 0.5, 'random'))

    ios = [check_update(b, a, ap, o) for (b, a, ap, o) in upd_cases]
    mres = driver.batch([{'op': 'upd.parse', 'asn4': a, 'addpath': ap, 'hex': b.hex()} for (b, a, ap, _) in upd_cases])
    for (b, a, ap, o), io, mo in zip(upd_cases, ios, mres):
        if has_unmodelled(mo) or has_unmodelled(io) or 'error' in mo:
            res.stats.skipped += 1
            continue
        if io != mo:
            res.disagree('Update.parse', {'hex': b.hex(), 'asn4': a, 'addpath': ap}, io, mo)

    # ---- the other top-level decoders: all short strings + mutated literals, under the same budget
    small = [bytes(t) for n in range(0, 3) for t in itertools.product(range(256) if n < 2 else G_EDGE, repeat=n)]
    small += [bytes(t) for t in itertools.product(G_EDGE[:8], repeat=3)]
    opens = [b[19:] for b in lits if b[:16] == b'\xff' * 16 and len(b) > 19 and b[18] == 1]
    omut = []
    for b in opens:
        omut += mutations(r, b, tier)
    # every capability with 0..4 elements of its value format (and one octet more / less): the value loops of Open.parse
    units = {1: 4, 2: 0, 5: 6, 64: 4, 65: 4, 66: 3, 69: 4, 70: 0, 71: 7, 73: 5, 128: 0, 131: 1, 255: 2}
    for code, unit in sorted(units.items()):
        lens = set()
        for n in range(0, 5):
            for d in (-1, 0, 1):
                if 0 <= n * unit + d <= 60:
                    lens.add(n * unit + d)
        if code == 64:
            lens |= {2, 6, 10, 14, 3, 7}
        for ln in sorted(lens):
            for fill in (0, 1):
                if code in (1, 69, 71, 5):
                    el = {1: bytes([0, 1, 0, 1]), 69: bytes([0, 1, 1, 3]), 71: bytes([0, 1, 1, 0, 0, 0, 10]), 5: bytes([0, 1, 0, 1, 0, 2])}[code]
                    v = (el * 8)[:ln] if fill == 0 else bytes((7 * i + code) & 255 for i in range(ln))
                else:
                    v = bytes((fill * 255) & 255 for _ in range(ln)) if fill == 0 else bytes((7 * i + code) & 255 for i in range(ln))
                capv = bytes([code, ln]) + v
                for wrap in (bytes([2, len(capv)]) + capv, bytes([2, len(capv) + 2]) + capv + bytes([2, 0])):
                    omut.append(struct.pack('!BHHIB', 4, 65002, 180, 0x0a000002, len(wrap)) + wrap)
    res.stats.hit('open_capability_lengths', len(omut))
    for name, fn, op, extra in (('Open.parse', I.open_parse, 'open.parse', small + opens + omut),
                                ('Notification.parse', I.notif_parse, 'notif.parse', small),
                                ('KeepAlive.parse', I.keepalive_parse, 'keepalive.parse', small[:300]),
                                ('RouteRefresh.parse', I.rr_parse, 'rr.parse', small)):
        ios = []
        for b in extra:
            io = fn(b)
            ios.append(io)
            res.stats.case((name, b.hex()), nontrivial=len(b) > 0, sample=None)
            res.stats.hit('decoder_' + name)
            if 'hang' in io:
                res.fail('C11', '%s did not finish within the CPU budget' % name, {'decoder': name, 'hex': b.hex()}, key='hang')
        mres = driver.batch([{'op': op, 'hex': b.hex()} for b in extra])
        for b, io, mo in zip(extra, ios, mres):
            if 'error' in mo:
                res.stats.skipped += 1
                continue
            if io != mo:
                res.disagree(name, {'hex': b.hex()}, io, mo)
    # PMSI tunnel decoder (Model/Pmsi.lean; theorems C11_pmsi_* say exactly when it raises): every length 0..7 with edge
    # octets, every tunnel type, identifiers of 0, 1, 4, 5, 16, 17 octets around 2^32 and 2^128, both label readings
    import impl_construct as IC
    pm = []
    edge = [0, 1, 6, 7, 15, 16, 127, 128, 255]
    for n in range(0, 8):
        for _ in range(12):
            pm.append(bytes(r.choice(edge) for _ in range(n)))
    for ty in range(0, 256):
        pm.append(bytes([r.choice(edge), ty]) + bytes(r.randrange(256) for _ in range(3)) + bytes(r.randrange(256) for _ in range(r.choice([0, 4, 16]))))
    ids = [b'', b'\x00', b'\x00' * 4, b'\xff' * 4, b'\x01' + b'\x00' * 4, b'\x00' * 16, b'\x00' * 15 + b'\x01', b'\x00' * 12 + b'\xff' * 4,
           b'\x00' * 11 + b'\x01' + b'\x00' * 4, b'\xff' * 16, b'\x01' + b'\x00' * 16, b'\x00' + b'\xff' * 16, b'\x00' * 40 + b'\x07']
    for t in ids + [bytes(r.randrange(256) for _ in range(r.choice([3, 4, 5, 15, 16, 17, 20]))) for _ in range(60 if tier == 'quick' else 600)]:
        for lab in (b'\x00\x00\x00', b'\x00\x01\x01', b'\xff\xff\xff', bytes(r.randrange(256) for _ in range(3))):
            pm.append(bytes([r.choice([0, 1, 255]), 6]) + lab + t)
    preqs, pios = [], []
    for b in pm:
        for ev in (False, True):
            io = IC.pmsi_parse(b, ev)
            res.stats.case(('PMSITunnel.parse', ev, b.hex()), nontrivial=len(b) >= 5, sample=None)
            res.stats.hit('decoder_PMSITunnel.parse')
            res.stats.hit('pmsi_' + ('raise' if 'raise' in io else 'hang' if 'hang' in io else 'type6' if io['type'] == 6 else 'other'))
            if 'hang' in io:
                res.fail('C11', 'PMSITunnel.parse did not finish within the CPU budget', {'decoder': 'PMSITunnel.parse', 'hex': b.hex()}, key='hang')
            preqs.append({'op': 'c11.pmsi.parse', 'evpn': ev, 'hex': b.hex()})
            pios.append(io)
    # round trip on the real code under exactly the hypotheses of C11_pmsi_roundtrip (LabelFits, FamilyKept): what
    # PMSITunnel.construct writes is decoded back by PMSITunnel.parse
    from yabgp.common import constants as bc
    evpn_reach = {'afi_safi': (25, 70), 'nexthop': '10.75.44.254', 'nlri': []}
    for kind, ad in (('mpls', {}), ('vni', {14: evpn_reach, 16: [[bc.BGP_EXT_COM_DICT['encapsulation'], 8]]}),
                     ('vni', {14: evpn_reach, 16: [[bc.BGP_EXT_COM_DICT['encapsulation'], 9]]})):
        lim = 2 ** 20 if kind == 'mpls' else 2 ** 24
        for _ in range(40 if tier == 'quick' else 600):
            leaf = r.choice([0, 1, 2, 127, 255])
            label = r.choice([0, 1, 15, 16, 1000, lim - 1, r.randrange(lim)])
            ip = r.choice([[4, 0], [4, 1], [4, 2 ** 32 - 1], [4, r.getrandbits(32)], [6, 2 ** 32], [6, 2 ** 128 - 1], [6, r.getrandbits(128) | 2 ** 32]])
            co = IC.pmsi_construct(ad, leaf, 6, label, ip)
            res.stats.case(('pmsi-rt', kind, leaf, label, tuple(ip)), sample=None)
            res.stats.hit('pmsi_roundtrip_' + kind)
            if 'hex' not in co:
                res.disagree('PMSITunnel.construct refuses a value inside the hypotheses of C11_pmsi_roundtrip',
                             {'overlay': kind, 'leaf': leaf, 'label': label, 'tunnel_id': ip}, co, {'hex': '...'})
                continue
            back = IC.pmsi_parse(bytes.fromhex(co['hex'])[3:], kind == 'vni')
            exp = {'leaf': leaf, 'type': 6, 'label': label, 'tunnel_id': ip}
            if back != exp:
                # not a clause of C11 itself: the theorem is about the models, so a difference here is a broken tie
                res.disagree('PMSITunnel.parse(PMSITunnel.construct(x)) != x inside the hypotheses of C11_pmsi_roundtrip',
                             {'overlay': kind, 'hex': co['hex']}, back, exp)
    pres = driver.batch(preqs)
    for q, io, mo in zip(preqs, pios, pres):
        if 'error' in mo:
            res.stats.skipped += 1
            continue
        if io != mo:
            res.disagree('PMSITunnel.parse', q, io, mo)
    return res


G_EDGE = [0, 1, 2, 3, 4, 5, 14, 15, 16, 29, 31, 32, 33, 40, 64, 127, 128, 192, 254, 255]
G_CODES = list(range(0, 41)) + [64, 128, 255]
