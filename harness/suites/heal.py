"""Suite `heal` (C02): from every state reached by an adversarial event prefix (operator not having stopped the peer),
continue with a cooperative peer - it drops whatever connections exist (a peer restart), then accepts TCP, answers our OPEN
with a valid OPEN and our KEEPALIVEs with KEEPALIVEs, sends periodic KEEPALIVEs - and require (oracle, on the real
implementation): a reconnection is always pending (never stuck), Established within one idle-hold period + slack of virtual
time, still Established three hold times later, and the OPEN of the new session carries the configured parameters.
Model and implementation run in lockstep (every event of prefix and continuation is compared), which also validates
that the cooperative continuation drives the real code."""
import struct

from lib.base import SuiteResult, rng_for, jdump
from gen import session_gen as SG
import impl_session as S
from suites.session import Pair, candidate_events, strip, state_key, CONFIGS
from oracles import parse_open_wire

TICKS = 3          # virtual clock ticks per second
SLACK = 3          # ticks


def stuck(sim, obs):
    """no session on a live connection, no reconnection timer, no pending attempt, no close owed"""
    w = sim.world
    if obs['state'] in ('OPENSENT', 'OPENCONFIRM', 'ESTABLISHED') and obs['proto'] is not None \
            and obs['conns'][obs['proto']] == 'connected':
        return False
    names = set()
    for c in w.calls:
        n = S.TIMER_NAMES.get(getattr(c.func, '__name__', None))
        if n:
            names.add(n)
    if obs['state'] == 'CONNECT' and ('retry' in names or (obs['proto'] is not None and obs['conns'][obs['proto']] == 'connected')):
        return False
    if obs['state'] == 'IDLE' and ('idlehold' in names or any(p == 'closing' for p in obs['conns'])):
        return False
    return True


class Coop(object):
    """the cooperative peer + scheduler; picks the next environment event from the simulated world"""

    def __init__(self, pair, full, r):
        self.p = pair
        self.full = full
        self.peer_hold = r.choice([0, 3, 30, 90, 180, 65535])
        # the peer that finally behaves may carry the BGP identifier seen before, or another one (the router was renumbered or
        # replaced): a valid OPEN either way
        self.peer_id = r.choice([0x0a000002, 0x0a000002, 0x0a000909, 0xc000024d])
        self.sent_open = set()
        self.sent_ka = {}
        self.next_ka = {}
        self.H = None

    def peer_open(self):
        ras = self.full['remote_as']
        return SG.frame(1, SG.open_body(ras, self.peer_hold, bgp_id=self.peer_id, caps=SG.std_caps(ras)))

    def next_event(self):
        sim = self.p.sim
        w = sim.world
        for c in w.connectors:
            if c.state == 'closing':
                return {'k': 'lost', 'c': c.id}
        for c in w.connectors:
            if c.state == 'connecting':
                return {'k': 'connok', 'c': c.id}
        for c in w.connectors:
            if c.state != 'connected':
                continue
            kinds = [b[18] for b in c.written]
            if 1 in kinds and c.id not in self.sent_open:
                self.sent_open.add(c.id)
                return {'k': 'chunk', 'c': c.id, 'hex': self.peer_open().hex()}
            if 4 in kinds and c.id in self.sent_open and c.id not in self.sent_ka:
                self.sent_ka[c.id] = w.now
                self.H = min(self.full['hold_time'], self.peer_hold)
                if self.H:
                    self.next_ka[c.id] = w.now + self.H      # H/3 seconds = H ticks
                return {'k': 'chunk', 'c': c.id, 'hex': SG.KEEPALIVE.hex()}
            if c.id in self.next_ka and self.next_ka[c.id] <= w.now:
                self.next_ka[c.id] = w.now + self.H
                return {'k': 'chunk', 'c': c.id, 'hex': SG.KEEPALIVE.hex()}
        due = w.due()
        if due:
            for name in ('keepalive', 'idlehold', 'retry', 'hold'):
                for c in due:
                    if S.TIMER_NAMES.get(getattr(c.func, '__name__', None)) == name:
                        return {'k': 'fire', 't': name}
        times = [c.time for c in w.calls] + [t for cid, t in self.next_ka.items()
                                             if w.connectors[cid].state == 'connected']
        times = [t for t in times if t > w.now]
        if not times:
            return {'k': 'advance', 'dt': 30}
        return {'k': 'advance', 'dt': min(times) - w.now}


def continue_coop(p, full, r, res, prefix_desc):
    """returns a failure (key, what) or None"""
    sim = p.sim
    w = sim.world
    t0 = w.now
    # the peer restarts: every connection it holds is dropped
    for c in list(w.connectors):
        if c.state == 'connected' and sim.enabled({'k': 'lost', 'c': c.id}):
            o = p.step({'k': 'lost', 'c': c.id})
            if stuck(sim, o):
                return ('stuck', 'no reconnection pending after the peer dropped the connection')
    coop = Coop(p, full, r)
    deadline = t0 + full['idle_hold_time'] * TICKS + SLACK
    est_at = None
    steps = 0
    end = None
    opens_before = sum(1 for c in w.connectors for b in c.written if b[18] == 1)
    while steps < 400:
        steps += 1
        ev = coop.next_event()
        if ev['k'] == 'advance' and est_at is None and w.now + ev['dt'] > deadline + 1:
            return ('not-established-in-time', 'not Established within idle_hold_time + slack of a cooperative peer (state %s at +%d ticks)'
                    % (p.last['state'], w.now - t0))
        if end is not None and ev['k'] == 'advance' and w.now + ev['dt'] > end:
            break
        if not sim.enabled(ev):
            return ('coop-event-disabled', 'cooperative event not possible: %r' % (ev,))
        o = p.step(ev)
        if o.get('hang') or o.get('escaped'):
            return ('escape', 'exception / hang during recovery')
        if stuck(sim, o):
            return ('stuck', 'no session, no reconnection timer, no pending attempt and no close owed (state %s)' % o['state'])
        if est_at is None and o['state'] == 'ESTABLISHED':
            est_at = w.now
            if est_at > deadline:
                return ('not-established-in-time', 'Established only after %d ticks (> idle_hold_time + slack)' % (est_at - t0))
            H = min(full['hold_time'], coop.peer_hold)
            # three hold times; with hold time 0 longer than the 4-minute large hold timer of OpenSent, which must not
            # survive into the session
            end = est_at + (3 * H if H else 300) * TICKS
            # the parameters the new session was offered: the OPEN written on the tracked connection
            pc = w.connectors[o['proto']]
            ow = [b for b in pc.written if b[18] == 1]
            if ow:
                po = parse_open_wire(ow[-1])
                if po['version'] != 4 or po['hold'] != full['hold_time'] or po['asn'] != full['local_as']:
                    return ('open-parameters', 'the OPEN of the recovered session does not carry the configured parameters: %r' % (po,))
                # ... and the same capabilities as the first OPEN the agent ever sent in this history
                first = None
                for c in w.connectors:
                    for b in c.written:
                        if b[18] == 1 and first is None:
                            first = parse_open_wire(b)
                if first is not None and first['caps'] != po['caps']:
                    a, b2 = set(map(tuple, first['caps'])), set(map(tuple, po['caps']))
                    kind = 'KF-capability-leak' if b2 < a else 'open-parameters'
                    what = 'an earlier session changed the capabilities the next session is offered: %r then %r' % (first['caps'], po['caps'])
                    if kind != 'KF-capability-leak':
                        return (kind, what)
                    # recorded finding: report it, and keep watching whether the session stays up
                    res.fail('C02', what, {'cfg': p.conf, 'events': list(p.trace)}, key=kind)
        elif est_at is not None and o['state'] != 'ESTABLISHED':
            return ('does-not-stay-up', 'the recovered session left Established (%s) under a cooperative peer at +%d ticks'
                    % (o['state'], w.now - est_at))
        if w.now > deadline and est_at is None:
            return ('not-established-in-time', 'not Established within idle_hold_time + slack (state %s)' % o['state'])
    if est_at is None:
        return ('not-established-in-time', 'not Established after %d cooperative events' % steps)
    return None


def adversarial_prefixes(r, conf, full, tier):
    """event lists without operator stop; (list, description)"""
    pool = SG.message_pool(full['remote_as'])
    out = []
    # breadth first over the alphabet, depth limited, de-duplicated by canonical state
    import suites.session as SS
    seen = {}
    frontier = [[{'k': 'boot'}]]
    depth = 3 if tier == 'quick' else 4
    for level in range(depth):
        nxt = []
        for path in frontier:
            sim = S.Sim(conf)
            ok = True
            for ev in path:
                if not sim.enabled(ev):
                    ok = False
                    break
                last = sim.step(ev)
            if not ok:
                continue
            for ev in candidate_events(sim, pool):
                if ev['k'] in ('stop',):
                    continue
                if ev['k'] == 'start' and level > 1:
                    continue
                s2 = S.Sim(conf)
                for e2 in path:
                    s2.step(e2)
                o = s2.step(strip(ev))
                live = sum(1 for c in s2.world.connectors if c.state in ('connecting', 'connected'))
                if live > 1:
                    continue            # multi-connection histories are C12's known findings
                key = state_key(o) + jdump(sorted(c.state for c in s2.world.connectors if c.state != 'disconnected'))
                if key not in seen:
                    seen[key] = True
                    nxt.append(path + [strip(ev)])
                    out.append(path + [strip(ev)])
        frontier = nxt
        if len(out) > (250 if tier == 'quick' else 4000):
            break
    return out


def random_prefix(r, conf, full, length):
    pool = SG.message_pool(full['remote_as'])
    sim = S.Sim(conf)
    evs = [{'k': 'boot'}]
    sim.step(evs[0])
    for _ in range(length):
        cands = [e for e in candidate_events(sim, pool) if e['k'] not in ('stop', 'start')]
        pending = any(c.state == 'connecting' for c in sim.world.connectors)
        cands = [e for e in cands if not (pending and e['k'] == 'fire' and e.get('t') in ('retry', 'idlehold'))]
        if not cands:
            break
        wts = [4.0 if e['k'] == 'connok' else (0.3 if e['k'] == 'chunk' and e.get('label') not in ('open_ok', 'keepalive', 'open_hold3', 'open_hold0') else 1.5)
               for e in cands]
        ev = strip(r.choices(cands, wts)[0])
        sim.step(ev)
        evs.append(ev)
        if sum(1 for c in sim.world.connectors if c.state in ('connecting', 'connected')) > 1:
            return None
    return evs


def run(seed, tier, driver):
    res = SuiteResult('heal')
    r = rng_for(seed, 'heal', tier)
    confs = CONFIGS
    for ci, conf in enumerate(confs):
        full = dict(S.DEFAULT_CFG); full.update(conf)
        prefixes = adversarial_prefixes(r, conf, full, tier)
        # an earlier session with EVERY kind of peer OPEN the pool knows (the breadth-first search merges OPENs that lead to
        # the same visible state; what an OPEN leaves behind in the run-time configuration is not visible there)
        explicit = []
        for lab, b in SG.message_pool(full['remote_as']):
            if lab.startswith('open_'):
                explicit.append([{'k': 'boot'}, {'k': 'connok', 'c': 0}, {'k': 'chunk', 'c': 0, 'hex': b.hex()},
                                 {'k': 'chunk', 'c': 0, 'hex': SG.KEEPALIVE.hex()}])
        if tier == 'quick' and ci >= 3:
            explicit = explicit[::2] if ci % 2 else explicit[1::2]
        prefixes = explicit + prefixes
        cap = 120 if ci < 3 else 50
        if tier == 'quick' and len(prefixes) > cap:
            keep = max(cap // 2, len(explicit))
            prefixes = prefixes[:keep] + r.sample(prefixes[keep:], min(cap // 2, len(prefixes) - keep))
        nrand = (40 if ci < 3 else 15) if tier == 'quick' else 1500
        for _ in range(nrand):
            pre = random_prefix(r, conf, full, r.choice([5, 10, 20, 40]))
            if pre:
                prefixes.append(pre)
        for pre in prefixes:
            p = Pair(conf, driver, res)
            ok = True
            for ev in pre:
                if not p.sim.enabled(ev):
                    ok = False
                    break
                p.step(ev)
            if not ok or p.mon.multi:
                res.stats.skipped += 1
                continue
            start_state = p.last['state']
            f = continue_coop(p, full, r, res, pre)
            res.stats.case(('heal', jdump(conf), jdump(p.trace)), sample={'cfg': conf, 'prefix': pre, 'end': p.last['state']})
            res.stats.hit('from_' + start_state)
            res.stats.hit('prefix_len_%d' % min(len(pre), 10))
            if f is not None:
                key, what = f
                if key == 'coop-event-disabled':
                    res.notes.append(what)
                    res.stats.skipped += 1
                    continue
                res.fail('C02', what, {'cfg': conf, 'events': list(p.trace), 'prefix_len': len(pre)}, key=key)
    if tier != 'search':
        shipped_application(res)
    return res


class _ImplOnly(object):
    """what continue_coop needs of a Pair, for runs on the implementation alone"""

    def __init__(self, sim, conf):
        self.sim = sim
        self.conf = conf
        self.last = None
        self.trace = []

    def step(self, ev):
        self.last = self.sim.step(ev)
        self.trace.append(ev)
        return self.last


def shipped_application(res):
    """The same question with the application the agent ships as its handler (DefaultHandler: message logging to disk, the
    files rotating): a session long enough for the log to rotate a few times, the peer restarts, then the cooperative peer -
    the agent must come back exactly as with any other application.  Implementation only."""
    import random
    import shutil as _sh
    import os
    import impl_msglog as IM
    root = os.path.join(IM.SCRATCH_ROOT, 'scratch_heal_%d' % os.getpid())
    CONF = IM.CONF
    for peer_addr, nupd in (('10.0.0.2', 14), ('2001:DB8::2', 3)):
        _sh.rmtree(root, ignore_errors=True)
        os.makedirs(root)
        for k, v in (('write_disk', True), ('write_dir', root), ('write_msg_max_size', 600), ('write_keepalive', True)):
            CONF.set_override(k, v, group='message')
        try:
            conf = {'hold_time': 30, 'idle_hold_time': 5, 'remote_addr': peer_addr}
            full = dict(S.DEFAULT_CFG); full.update(conf)
            pool = dict(SG.message_pool(full['remote_as']))
            sim = S.Sim(conf)
            real = IM.dh.DefaultHandler()
            real.init()
            rec = sim.handler
            for name in ('on_update_error', 'update_received', 'keepalive_received', 'open_received', 'send_open',
                         'route_refresh_received', 'notification_received', 'on_connection_lost', 'on_connection_failed',
                         'on_established'):
                if not hasattr(rec, name) or not hasattr(real, name):
                    continue

                def both(*a, _r=getattr(rec, name), _d=getattr(real, name), **kw):
                    try:
                        _r(*a, **kw)
                    except Exception:   # noqa
                        pass
                    return _d(*a, **kw)
                setattr(rec, name, both)
            p = _ImplOnly(sim, dict(conf, application='shipped DefaultHandler'))
            for ev in [{'k': 'boot'}, {'k': 'connok', 'c': 0}, {'k': 'chunk', 'c': 0, 'hex': pool['open_ok'].hex()},
                       {'k': 'chunk', 'c': 0, 'hex': pool['keepalive'].hex()}] + \
                      [{'k': 'chunk', 'c': 0, 'hex': pool['update_ok' if i % 2 == 0 else 'update_withdraw'].hex()} for i in range(nupd)]:
                if sim.enabled(ev):
                    p.step(ev)
            f = continue_coop(p, full, random.Random(1), res, None)
            res.stats.case(('heal-shipped', peer_addr), sample=None)
            res.stats.hit('shipped_application')
            if f is not None and f[0] != 'coop-event-disabled':
                res.fail('C02', f[1] + ' (application: the shipped DefaultHandler, disk logging on, rotation every 600 octets, peer %s)' % peer_addr,
                         {'cfg': dict(conf, application='shipped DefaultHandler'), 'events': list(p.trace)}, key='shipped-' + f[0])
        finally:
            for k in ('write_disk', 'write_dir', 'write_msg_max_size', 'write_keepalive'):
                CONF.clear_override(k, group='message')
            _sh.rmtree(root, ignore_errors=True)


def replay_witness(wit, driver):
    res = SuiteResult('heal-witness')
    p = Pair(wit['cfg'], driver, res)
    full = dict(S.DEFAULT_CFG); full.update(wit['cfg'])
    for ev in wit['events'][:wit.get('prefix_len', len(wit['events']))]:
        if not p.sim.enabled(ev):
            break
        p.step(ev)
    import random
    f = continue_coop(p, full, random.Random(1), res, None)
    if f is not None:
        res.fail('C02', f[1], {'cfg': wit['cfg'], 'events': list(p.trace)}, key=f[0])
    return res
