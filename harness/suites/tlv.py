"""Suite `tlv`: the TLV container loops of BGP-LS NLRI, the BGP-LS attribute and BGP Prefix-SID
(lean/Yabgp/Model/Tlv.lean vs yabgp/message/attribute/{nlri/linkstate.py, linkstate/**, sr/**}).

(0) tie of the loop inventory: the loops the model covers (by normalised source hash) and the registries are
    compared with the AST of the tree under verification, re-scanned now (harness/gen_loops.py);
(a) correspondence: the real loop is an instance of the parametric one - model SPLIT of the input, REAL per-TLV
    decoder mapped over the split, compared with what the REAL container returns (values, error class, partial
    results); and where the attribute list decodes the BGP-LS attribute (model `tlv.place` vs Update.parse);
(b) C11 oracle on the real code: every decoder under a CPU budget on exhaustive short inputs, every registered TLV
    type x every sub-length 0..16, 1-octet and length-field mutations of valid encodings harvested from the repo's
    tests, seeded random inputs up to 4096 octets; a hang is failure key 'hang'; decoders reached from
    Update.parse must additionally never raise out of it (key 'update-raises');
(c) C15 oracle on the real code: decode(a ++ b) = decode(a) ++ decode(b) for all pairs (and random k-tuples) from
    per-kind pools, unknown-TLV insertion, permutations of the attribute list around the BGP-LS attribute.
"""
import itertools
import json
import struct

from lib.base import SuiteResult, rng_for, with_budget, Budget, REPO, jdump
from lib import astscan
from gen import values as G
import gen_loops
import impl_tlv as I

SEARCH = True          # check.py may call run(seed, 'search', driver) to look harder for a failing input

EDGE = [0, 1, 2, 3, 4, 5, 7, 8, 16, 127, 128, 254, 255]
UNKNOWN_TYPES = {'22': [0, 9, 1000, 65535], '12': [0, 2, 6, 204, 255]}
FILL = [lambda n: bytes(n), lambda n: b'\xff' * n, lambda n: bytes((i * 37 + 1) & 255 for i in range(n)),
        lambda n: bytes(((i + 1) * 16) & 255 for i in range(n))]


# ------------------------------------------------------------------------------------------------ shapes / builders
def shape_of(info, name):
    hdr = [i['hdr'] for i in info['instances'] if i['name'] == name][0]
    if any(s in name for s in ('mt_id', 'srlg', 'route_tag', 'node_msd')):
        return ('stride', hdr)
    return {4: ('22', 4), 3: ('12', 3), 7: ('sr', 7)}[hdr]


def mk_hdr(shape, t, ln):
    if shape[0] == '22':
        return struct.pack('!HH', t & 0xffff, ln & 0xffff)
    if shape[0] == '12':
        return struct.pack('!BH', t & 0xff, ln & 0xffff)
    if shape[0] == 'sr':
        return struct.pack('!I', t & 0xffffff)[1:] + struct.pack('!HH', 1161, ln & 0xffff)
    return b''


PREAMBLE = {
    'bgpls.descriptors': bytes([2]) + struct.pack('!Q', 7),
    'ls.srv6_end_x_sid': struct.pack('!HBBBB', 57, 0x80, 0, 10, 0) + bytes(range(16)),
    'ls.srv6_lan_end_x_sid.isis': struct.pack('!HBBBB', 57, 0x40, 0, 10, 0) + bytes([0, 0, 0, 0, 0, 1]) + bytes(range(16)),
    'ls.srv6_lan_end_x_sid.ospf': struct.pack('!HBBBB', 57, 0x20, 0, 10, 0) + bytes([1, 1, 1, 1]) + bytes(range(16)),
    'ls.srv6_locator': struct.pack('!BBHI', 0x80, 1, 0, 10),
    'ls.sr_capabilities': b'\x80\x00',
    'ls.srlb': b'\x00\x00',
    'psid.srv6_l3_service': b'\x00',
    'psid.srv6_sid_information': b'\x00' + bytes(range(16)) + b'\x00\x00\x11\x00',
}


def types_for(info, name, shape):
    if name == 'ls.attr' or name.startswith('ls.srv6'):
        return list(info['ls_registered']) + UNKNOWN_TYPES['22']
    if name == 'bgpls.nlri':
        return [0, 1, 2, 3, 4, 5, 6, 7, 255, 65535]
    if name == 'bgpls.descriptors':
        return list(range(255, 267)) + [518, 0, 1000]
    if name == 'bgpls.node_descriptor':
        return list(range(511, 519)) + [0, 1000]
    if shape[0] == '12':
        return [0, 1, 2, 5, 6, 204, 255]
    if shape[0] == 'sr':
        return [0, 1, 100, 0xffffff]
    return [0]


def single_tlvs(info, name, shape, lens=range(0, 17), fills=FILL[:2]):
    """(type, declared length, value) triples: every interesting type x every sub-length x fill patterns"""
    out = []
    for t in types_for(info, name, shape):
        for ln in lens:
            for f in fills:
                out.append((t, ln, f(ln)))
    return out


def instance_inputs(info, inst, r, tier, harvested):
    """byte strings handed to the enclosing decoder of `inst` (preamble included)"""
    name = inst.name
    shape = shape_of(info, name)
    pre = PREAMBLE.get(name, b'')
    n_rand = {'quick': 60, 'thorough': 3000, 'search': 600}[tier]
    out = []
    # truncated preambles, and everything up to 2 octets behind the preamble (edge octets in the quick tier)
    for k in range(len(pre) + 1):
        out.append(pre[:k])
    octs = EDGE if tier == 'quick' else range(256)
    for a in range(256):
        out.append(pre + bytes([a]))
    for a in octs:
        for b in octs:
            out.append(pre + bytes([a, b]))
    if shape[0] == 'stride':
        k = shape[1]
        for n in range(0, 4 * k + 2):
            for f in FILL[:3]:
                out.append(f(n))
        for _ in range(n_rand):
            out.append(bytes(r.getrandbits(8) for _ in range(r.choice([k, 2 * k, 3 * k, r.randint(0, 40), r.randint(0, 4096)]))))
        return out
    # every interesting type x every sub-length 0..16: exact, truncated value, trailing garbage shorter than a header
    nested_quick = tier == 'quick' and name.startswith('ls.srv6')
    singles = single_tlvs(info, name, shape, fills=FILL[:1] if nested_quick else FILL[:2])
    for (t, ln, v) in singles:
        out.append(pre + mk_hdr(shape, t, ln) + v)
    for (t, ln, v) in singles[::7]:
        out.append(pre + mk_hdr(shape, t, ln + 1) + v)                       # length runs past the end
        out.append(pre + mk_hdr(shape, t, 0xffff) + v)
        out.append(pre + mk_hdr(shape, t, ln) + v + b'\x00' * r.randint(1, shape[1] - 1))   # short header behind
    # sequences of TLVs (mostly valid), harvested encodings and their mutations
    def seq(k):
        b = b''
        for _ in range(k):
            t, ln, v = r.choice(singles)
            if r.random() < 0.15:
                v = bytes(r.getrandbits(8) for _ in range(ln))
            b += mk_hdr(shape, t, ln) + v
        return b
    for _ in range(n_rand):
        out.append(pre + seq(r.choice([2, 2, 3, 5, 12])))
        out.append(G.mutate(r, pre + seq(r.choice([1, 2, 4]))))
    for h in harvested.get(name, []):
        out.append(h)
        for _ in range(3 if tier == 'quick' else 40):
            out.append(G.mutate(r, h))
    for _ in range(max(4, n_rand // 10)):
        out.append(pre + bytes(r.getrandbits(8) for _ in range(r.choice([3, 5, 9, 40, 300, 4096 - len(pre)]))))
        out.append(pre + seq(r.choice([100, 300]))[:4096])
    return out


# ------------------------------------------------------------------------------------------------ harvesting
def harvest(td):
    """valid encodings from the byte literals of the repo's own tests, per instance name"""
    lits = astscan.harvest_byte_literals()
    cand = {'ls.attr': [], 'bgpls.nlri': [], 'psid.attr': []}
    for b in lits:
        if b[:16] == b'\xff' * 16 and len(b) > 19 and b[18] == 2:
            for code, val in I.split_update_attrs(b):
                if code == 29:
                    cand['ls.attr'].append(val)
                elif code == 40:
                    cand['psid.attr'].append(val)
                elif code == 14 and val[:3] == b'\x40\x04\x47':
                    cand['bgpls.nlri'].append(val[5 + val[3]:])
                elif code == 15 and val[:3] == b'\x40\x04\x47':
                    cand['bgpls.nlri'].append(val[3:])
        else:
            for k in cand:
                cand[k].append(b)
    out = {}
    for name, bs in cand.items():
        inst = I.BY_NAME[name]
        keep = []
        for b in bs:
            o = inst.observed(b, inst.ctxs[-1] if name == 'ls.attr' else inst.ctxs[0])
            if 'ok' in o and o['ok'] and len(b) >= 4 and b not in keep:
                # a literal that merely happens to parse as unknown TLVs is not an encoding of this kind
                if name != 'bgpls.nlri' and all(isinstance(e, dict) and isinstance(e.get('type'), int) for e in o['ok']):
                    continue
                keep.append(b)
        out[name] = keep
    # nested kinds: the values of the container TLVs found inside the harvested BGP-LS attributes
    nested = {1106: 'ls.srv6_end_x_sid', 1162: 'ls.srv6_locator', 1034: 'ls.sr_capabilities', 1036: 'ls.srlb',
              1096: 'ls.srlg', 1153: 'ls.igp_route_tag', 1154: 'ls.ext_igp_route_tag', 266: 'ls.node_msd'}
    reqs = [{'op': 'tlv.split', 'inst': 'ls.attr', 'hex': b.hex()} for b in out['ls.attr']]
    for sp in td.batch(reqs):
        for it in sp['items']:
            if it['t'] in nested:
                out.setdefault(nested[it['t']], []).append(bytes.fromhex(it['v']))
    reqs = [{'op': 'tlv.split', 'inst': 'bgpls.nlri', 'hex': b.hex()} for b in out['bgpls.nlri']]
    for sp in td.batch(reqs):
        for it in sp['items']:
            out.setdefault('bgpls.descriptors', []).append(bytes.fromhex(it['v']))
    reqs = [{'op': 'tlv.split', 'inst': 'bgpls.descriptors', 'hex': b.hex()} for b in out.get('bgpls.descriptors', [])]
    for sp in td.batch(reqs):
        for it in sp['items']:
            if it['t'] in (256, 257):
                out.setdefault('bgpls.node_descriptor', []).append(bytes.fromhex(it['v']))
    reqs = [{'op': 'tlv.split', 'inst': 'psid.attr', 'hex': b.hex()} for b in out['psid.attr']]
    for sp in td.batch(reqs):
        for it in sp['items']:
            if it['t'] == 5:
                out.setdefault('psid.srv6_l3_service', []).append(bytes.fromhex(it['v']))
    for k in list(out):
        seen = []
        for b in out[k]:
            if b not in seen:
                seen.append(b)
        out[k] = seen[:40]
    return out


# ------------------------------------------------------------------------------------------------ (0) inventory tie
def check_inventory(res, info):
    loops = [e for e in gen_loops.scan_loops(REPO) if e['owner'] == 'tlv']
    src = {e['id']: e for e in loops}
    cov = {c['id']: c for c in info['covered']}
    for k in sorted(set(src) | set(cov)):
        res.stats.case(('loop', k), sample={'loop': k})
        res.stats.hit('inventory_loops')
        s, c = src.get(k), cov.get(k)
        if s is None:
            res.disagree('loop inventory: a loop the model covers is no longer in the source', {'id': k}, None, c)
        elif c is None:
            res.disagree('loop inventory: a loop in the source is not covered by the model', {'id': k, 'line': s['line']},
                         {'hash': s['hash'], 'shape': s['shape']}, None)
        elif int(s['hash'], 16) != int(c['hash'], 16) or s['adv'] != c['adv']:
            res.disagree('loop inventory: the loop\'s code changed (normalised source hash / advance differ)',
                         {'id': k, 'line': s['line']}, {'hash': s['hash'], 'adv': s['adv'], 'shape': s['shape']},
                         {'hash': c['hash'], 'adv': c['adv']})
    regs = gen_loops.registries(REPO)
    pairs = [('LinkState.registered_tlvs', [t for t, _, _ in regs['linkstate']], info['ls_registered']),
             ('protocol-dependent type list of LinkState.unpack', regs['linkstate_special'], info['ls_special']),
             ('registered classes whose unpack takes the protocol id', [t for t, _, a in regs['linkstate'] if a == 2], info['ls_two_arg']),
             ('registered classes without unpack', [t for t, _, a in regs['linkstate'] if a == 0], info['ls_no_unpack']),
             ('BGPPrefixSID.registered_tlvs', [t for t, _, _ in regs['prefix_sid']], info['psid']),
             ('SRv6L3Service.registered_tlvs', [t for t, _, _ in regs['srv6_l3_service']], info['l3']),
             ('SRv6SIDInformation.registered_tlvs', [t for t, _, _ in regs['srv6_sid_information']], info['sidinfo'])]
    for what, impl, model in pairs:
        res.stats.case(('registry', what))
        if list(impl) != list(model):
            res.disagree('registry: ' + what, {}, impl, model)
    names = set(i['name'] for i in info['instances'])
    if names != set(I.BY_NAME):
        res.disagree('instances of the model and of impl_tlv differ', {}, sorted(I.BY_NAME), sorted(names))
    for i in info['instances']:
        if i['name'] in I.BY_NAME and I.BY_NAME[i['name']].skip != i['skip']:
            res.disagree('preamble size', {'inst': i['name']}, I.BY_NAME[i['name']].skip, i['skip'])


# ------------------------------------------------------------------------------------------------ (a) correspondence
def corr_split(res, r, tier, td, info, harvested):
    for inst in I.INSTANCES:
        datas = instance_inputs(info, inst, r, tier, harvested)
        seen = set()
        uniq = []
        for d in datas:
            d = bytes(d[:4200])
            if d not in seen:
                seen.add(d)
                uniq.append(d)
        splits = td.batch([{'op': 'tlv.split', 'inst': inst.name, 'hex': d.hex()} for d in uniq])
        for n, (d, sp) in enumerate(zip(uniq, splits)):
            if 'error' in sp:
                res.disagree('driver error', {'inst': inst.name, 'hex': d.hex()}, None, sp)
                continue
            ctxs = inst.ctxs if len(d) <= len(PREAMBLE.get(inst.name, b'')) + 2 else (inst.ctxs[n % len(inst.ctxs)],)
            for ctx in ctxs:
                obs = inst.observed(d, ctx)
                exp = inst.expected(d, ctx, sp)
                res.stats.case(('split', inst.name, ctx, d.hex()), nontrivial=len(d) > 0,
                               sample={'inst': inst.name, 'ctx': ctx, 'hex': d.hex()[:80], 'impl': str(obs)[:160]})
                res.stats.hit('split_%s_%s' % (inst.name, 'ok' if 'ok' in obs else 'upderr' if 'upderr' in obs
                                               else 'hang' if 'hang' in obs else 'raise'))
                res.stats.hit('split_stop_' + sp['stop'])
                if 'hang' in obs:
                    if not obs.get('skipped'):
                        res.fail('C11', 'decoder %s does not return within the CPU budget' % inst.name,
                                 {'kind': 'c11', 'decoder': '%s[%s]' % (inst.name, ctx), 'hex': d.hex()}, key='hang')
                    else:
                        res.stats.hit('skipped_after_hangs')
                    continue
                if not I.same(obs, exp):
                    res.disagree('container loop is not the parametric loop over the model split',
                                 {'inst': inst.name, 'ctx': ctx, 'hex': d.hex(), 'split': sp}, obs, exp)
                if sp['steps'] > len(d):
                    res.disagree('step bound', {'inst': inst.name, 'hex': d.hex()}, None, sp['steps'])


# ---- where the attribute list decodes the BGP-LS attribute
LS_VALUES = [b'', I.hdr22(1026, 2) + b'ab', I.hdr22(1099, 7) + b'\x30\x0a\x00\x00\x00\x01\x02',
             I.hdr22(1158, 7) + b'\x40\x00\x00\x00\x00\x00\x64', I.hdr22(9, 1) + b'\x07',
             I.hdr22(1028, 3) + b'\x01\x02\x03', I.hdr22(1026, 9) + b'ab']
OTHERS = {1: I.attr_blob(0x40, 1, b'\x00'), 2: I.attr_blob(0x40, 2, b''), 4: I.attr_blob(0x80, 4, b'\x00\x00\x00\x05'),
          5: I.attr_blob(0x40, 5, b'\x00\x00\x00\x64'),
          40: I.attr_blob(0xc0, 40, I.hdr12(5, 1) + b'\x00' + I.hdr12(204, 2) + b'zz')}


def place_case(kinds, ls_val, pro):
    """attribute list from kinds like ['mp', 'ls', 1, 4] -> (model items, UPDATE body)"""
    items, blob = [], b''
    for k in kinds:
        if k == 'mp':
            items.append({'k': 'mp', 'pro': pro if pro else None})
            blob += I.attr_blob(0x80, 14, I.mp_reach_ls(I.node_nlri(pro)))
        elif k == 'ls':
            items.append({'k': 'ls', 'hex': ls_val.hex()})
            blob += I.attr_blob(0x80, 29, ls_val)
        else:
            items.append({'k': 'other', 'code': k})
            blob += OTHERS[k]
    return items, I.upd_body(blob)


def place_expected(model, pro_of_hex):
    """what Update.parse must return for attribute 29 according to the model's placement"""
    if 'error' in model:
        return {'present': None, 'error': True}
    for code, v in model['ok']:
        if code == 29:
            st, val = I.run(I.LinkState.unpack, bytes.fromhex(v['hex']), v['pro'])
            return {'present': I.canon(val.value) if st == 'ok' else 'raise', 'error': False}
    return {'present': 'absent', 'error': False}


def place_observed(body):
    st, v = I.update_parse(body)
    if st == 'hang':
        return {'hang': True, 'skipped': v == 'skipped'}
    if st != 'ok':
        return {'raise': True}
    a = v.get('attr') or {}
    return {'present': I.canon(a[29]) if 29 in a else 'absent', 'error': v.get('sub_error') is not None}


def corr_place(res, r, tier, td):
    cases = []
    base_sets = [['mp', 'ls'], ['mp', 'ls', 1], ['ls', 1], ['mp', 'ls', 1, 4], ['ls'], ['mp', 'ls', 40, 5]]
    if tier != 'quick':
        base_sets.append(['mp', 'ls', 1, 2, 4])
    for kinds in base_sets:
        for perm in itertools.permutations(kinds):
            for ls_val in LS_VALUES:
                for pro in ((2,) if tier == 'quick' and len(kinds) > 3 else (0, 2, 3)):
                    cases.append((list(perm), ls_val, pro))
    reqs, bodies = [], []
    for kinds, ls_val, pro in cases:
        items, body = place_case(kinds, ls_val, pro)
        bad = [v.hex() for v in LS_VALUES if 'upderr' in I.BY_NAME['ls.attr'].observed(v, pro if pro else None)]
        reqs.append({'op': 'tlv.place', 'items': items, 'bad': bad})
        reqs.append({'op': 'tlv.place', 'items': items, 'bad': bad, 'unrepaired': True})
        bodies.append(body)
    outs = td.batch(reqs)
    for n, ((kinds, ls_val, pro), body) in enumerate(zip(cases, bodies)):
        if I.hung('ls.attr') or I.hung('Update.parse'):
            res.stats.hit('skipped_after_hangs')
            continue
        rep, unrep = outs[2 * n], outs[2 * n + 1]
        obs = place_observed(body)
        res.stats.case(('place', jdump(kinds), ls_val.hex(), pro), sample={'attrs': kinds, 'ls': ls_val.hex(), 'impl': str(obs)[:120]})
        if 'hang' in obs:
            if not obs['skipped']:
                res.fail('C11', 'Update.parse does not return within the CPU budget',
                         {'kind': 'c11', 'decoder': 'upd.body', 'hex': body.hex()}, key='hang')
            continue
        res.stats.hit('place_' + ('raise' if 'raise' in obs else 'error' if obs['error'] else 'ok'))
        if 'raise' in obs:
            res.fail('C11', 'Update.parse raises', {'kind': 'c11', 'decoder': 'upd.body', 'hex': body.hex()}, key='update-raises')
            continue
        exp = place_expected(rep, None)
        ok = (exp['error'] == obs['error']) and (exp['error'] or I.same(exp['present'], obs['present']))
        if ok:
            continue
        exp_u = place_expected(unrep, None)
        ok_u = (exp_u['error'] == obs['error']) and (exp_u['error'] or I.same(exp_u['present'], obs['present']))
        if ok_u:
            # the tree under verification still has `if bgpls_attr:`: the recorded order dependence, not a broken tie
            res.fail('C15', 'an empty BGP-LS attribute is decoded to {29: []} when MP_REACH_NLRI precedes it and dropped '
                            'when it follows (or when there is no MP_REACH_NLRI)',
                     {'kind': 'ls-order', 'attrs': kinds, 'ls_hex': ls_val.hex(), 'pro': pro, 'hex': body.hex()},
                     key='KF-empty-ls-attr-order')
        else:
            res.disagree('placement of the BGP-LS attribute in the attribute list',
                         {'attrs': kinds, 'ls_hex': ls_val.hex(), 'pro': pro, 'hex': body.hex()}, obs, exp)


# ------------------------------------------------------------------------------------------------ (b) C11 oracle
CHUNK = 4000


def run_many(fn, inputs, key='?'):
    """statuses 'ok' | 'raise:<Class>' | 'hang' | 'skipped' of fn on every input; one CPU budget per chunk, an expiry
    is re-checked on the single input that was running; after MAX_HANGS hangs the rest is skipped"""
    n = len(inputs)
    st = ['skipped'] * n
    i = 0
    while i < n and not I.hung(key):
        j = min(n, i + CHUNK)
        cur = [i]

        def work():
            k = cur[0]
            while k < j:
                cur[0] = k
                try:
                    fn(inputs[k])
                    st[k] = 'ok'
                except Exception as e:      # noqa  (Budget derives from BaseException and passes through)
                    st[k] = 'raise:' + type(e).__name__
                k += 1
            cur[0] = j
        s, _ = with_budget(I.BUDGET, work)
        if s == 'hang':
            k = cur[0]
            s1, v1 = with_budget(I.BUDGET, fn, inputs[k])
            st[k] = 'hang' if s1 == 'hang' else ('ok' if s1 == 'ok' else 'raise:' + type(v1).__name__)
            if s1 == 'hang':
                I.note_hang(key)
            i = k + 1
        else:
            i = j
    return st


def decoders(info):
    """(name, function of the byte string, reached from Update.parse?)"""
    out = []
    for inst in I.INSTANCES:
        for ctx in inst.ctxs:
            out.append(('%s[%s]' % (inst.name, ctx), (lambda d, inst=inst, ctx=ctx: inst.container(d, ctx)), False))
    two = set(info['ls_two_arg'])
    for t, k in sorted(I.LinkState.registered_tlvs.items()):
        if not hasattr(k, 'unpack'):
            continue
        if t in two:
            for pro in (None, 1, 3):
                out.append(('ls.tlv.%d[%s]' % (t, pro), (lambda d, k=k, pro=pro: k.unpack(d, pro)), False))
        else:
            out.append(('ls.tlv.%d' % t, (lambda d, k=k: k.unpack(d)), False))
    for pro in (0, 1, 3):
        mp = I.attr_blob(0x80, 14, I.mp_reach_ls(I.node_nlri(pro)))
        out.append(('upd.ls.after_mp[%d]' % pro,
                    (lambda d, mp=mp: I.Update.parse(None, I.upd_body(mp + I.attr_blob(0x80, 29, d)), True, {})), True))
    mp2 = I.attr_blob(0x80, 14, I.mp_reach_ls(I.node_nlri(2)))
    out.append(('upd.ls.before_mp', (lambda d: I.Update.parse(None, I.upd_body(I.attr_blob(0x80, 29, d) + mp2), True, {})), True))
    out.append(('upd.ls.alone', (lambda d: I.Update.parse(None, I.upd_body(I.attr_blob(0x80, 29, d)), True, {})), True))
    out.append(('upd.mp_reach.nlri', (lambda d: I.Update.parse(None, I.upd_body(I.attr_blob(0x80, 14, I.mp_reach_ls(d))), True, {})), True))
    out.append(('upd.mp_unreach.nlri', (lambda d: I.Update.parse(None, I.upd_body(I.attr_blob(0x80, 15, I.mp_unreach_ls(d))), True, {})), True))
    out.append(('upd.prefix_sid', (lambda d: I.Update.parse(None, I.upd_body(I.attr_blob(0xc0, 40, d)), True, {})), True))
    return out


DECODER_INST = {'upd.ls': 'ls.attr', 'upd.mp_': 'bgpls.nlri', 'upd.prefix_sid': 'psid.attr'}


def c11_inputs(info, name, r, tier, harvested, per_inst):
    """inputs for one decoder of the C11 oracle"""
    out = []
    # exhaustive short strings
    out.append(b'')
    for a in range(256):
        out.append(bytes([a]))
    upd = name.startswith('upd.')
    full2 = tier != 'quick' or (not upd and not name.startswith('ls.tlv.') and name.endswith('[%s]' % I.BY_NAME[name.split('[')[0]].ctxs[0]))
    octs2 = range(256) if full2 else EDGE
    for a in octs2:
        for b in octs2:
            out.append(bytes([a, b]))
    if tier == 'thorough':
        full3 = not upd and not name.startswith('ls.tlv.') and name.endswith('[%s]' % I.BY_NAME[name.split('[')[0]].ctxs[0])
        for a in EDGE:
            for b in (range(256) if full3 else EDGE):
                for c in (range(256) if full3 else EDGE):
                    out.append(bytes([a, b, c]))
    iname = None
    if name.startswith('upd.'):
        for k, v in DECODER_INST.items():
            if name.startswith(k):
                iname = v
    elif name.startswith('ls.tlv.'):
        iname = None
    else:
        iname = name.split('[')[0]
    if iname is not None:
        first = upd or name.endswith('[%s]' % I.BY_NAME[iname].ctxs[0])
        out.extend(per_inst[iname] if (first or tier != 'quick') else per_inst[iname][::3])
    else:
        # a registered TLV class called directly: every sub-length 0..16 (and beyond) x fill patterns, random values
        for ln in list(range(0, 41)) + [64, 255, 256, 4092]:
            for f in FILL:
                out.append(f(ln))
        for _ in range(40 if tier == 'quick' else 2000):
            out.append(bytes(r.getrandbits(8) for _ in range(r.choice([1, 2, 3, 4, 7, 8, 9, 12, 16, 22, 26, 28, 30, 40, r.randint(0, 4096)]))))
        t = int(name.split('.')[2].split('[')[0])
        nested = {1106: 'ls.srv6_end_x_sid', 1107: 'ls.srv6_lan_end_x_sid.isis', 1108: 'ls.srv6_lan_end_x_sid.ospf',
                  1162: 'ls.srv6_locator', 1034: 'ls.sr_capabilities', 1036: 'ls.srlb'}
        if t in nested:
            out.extend(per_inst[nested[t]][::3])
    return out


def mutations_of_valid(info, td, r, tier, harvested):
    """all 1-octet mutations (every position x a value set; all 256 values in the thorough tier) and all
    length-field mutations (positions from the model's split) of the valid encodings harvested from the tests"""
    out = {}
    vals = [0, 1, 2, 3, 4, 7, 8, 127, 128, 254, 255] if tier != 'thorough' else list(range(256))
    for name in ('ls.attr', 'bgpls.nlri', 'psid.attr'):
        acc = []
        hs = harvested.get(name, [])
        hs = hs[:6] if tier == 'quick' else hs
        splits = td.batch([{'op': 'tlv.split', 'inst': name, 'hex': h.hex()} for h in hs])
        for h, sp in zip(hs, splits):
            for pos in range(len(h)):
                for v in vals + [h[pos] ^ 0x80, (h[pos] + 1) & 255, (h[pos] - 1) & 255]:
                    if v != h[pos]:
                        acc.append(h[:pos] + bytes([v]) + h[pos + 1:])
            # length fields of the top-level TLVs
            off = 0
            hdr = 4 if name != 'psid.attr' else 3
            for it in sp['items']:
                lpos = off + hdr - 2
                for nl in (0, 1, it['l'] - 1, it['l'] + 1, it['l'] + hdr, len(h), 0x7fff, 0xffff, 0x100, 0xff00):
                    if 0 <= nl <= 0xffff and nl != it['l']:
                        acc.append(h[:lpos] + struct.pack('!H', nl) + h[lpos + 2:])
                off += hdr + len(it['v']) // 2
            for k in range(len(h)):
                acc.append(h[:k])
        out[name] = acc
    return out


def amplified(td, harvested):
    """BGP-LS attribute values in which a container TLV holds MANY sub-TLVs: (a) k copies of the container itself appended to
    its own value, (b) the first sub-TLV of its tail repeated k times.  The clean decoders are linear in the size; a decoder
    that hands every sub-TLV the rest of its parent, or restarts, is exponential / quadratic in k and runs out of budget."""
    containers = (1106, 1107, 1108, 1162, 1034, 1036, 1035, 1158, 1099, 1100)
    out = []
    hs = harvested.get('ls.attr', [])
    for sp in td.batch([{'op': 'tlv.split', 'inst': 'ls.attr', 'hex': h.hex()} for h in hs]):
        for it in sp['items']:
            v = bytes.fromhex(it['v'])
            if it['t'] not in containers or not (4 <= len(v) <= 120):
                continue
            t = it['t']

            def tlv(tt, val):
                return struct.pack('!HH', tt, len(val)) + val
            for k in (6, 12, 18, 24, 30):
                big = v + tlv(t, v) * k
                if len(big) <= 3900:
                    out.append(tlv(t, big))
                for fixed in (0, 4, 8, 12, 16, 20, 22, 24, 28):
                    tail = v[fixed:]
                    if len(tail) >= 4:
                        ln = struct.unpack('!H', tail[2:4])[0]
                        if 4 + ln <= len(tail):
                            big2 = v + tail[:4 + ln] * k
                            if len(big2) <= 3900:
                                out.append(tlv(t, big2))
            # (c) towers: the container nested in itself, 8 .. 64 levels deep (at every sub-TLV boundary of its value): a
            # decoder that decodes a sub-TLV more than once is exponential in the DEPTH, not in the number of sub-TLVs
            bounds = [len(v)]
            for fixed in (0, 4, 8, 12, 16, 20, 22, 24, 28):
                tail = v[fixed:]
                if len(tail) >= 4 and 4 + struct.unpack('!H', tail[2:4])[0] <= len(tail):
                    bounds.append(fixed)
            for fixed in bounds:
                head = v[:fixed]
                for depth in (8, 14, 20, 32, 64):
                    inner = tlv(t, v)
                    for _ in range(depth):
                        if len(head) + len(inner) + 4 > 3900:
                            break
                        inner = tlv(t, head + inner)
                    out.append(inner)
    seen = []
    for b in out:
        if b not in seen:
            seen.append(b)
    return seen


def text_bodies(info):
    """every registered link-state TLV type with bodies that are hard for careless TEXT handling (names, opaque strings are
    decoded with str methods / regular expressions): long runs of blanks, NULs or one letter followed by another character"""
    bodies = [b' ' * 60 + b'x', b'spine' + b' ' * 70 + b'(rack 12)', b'a' * 50 + b' ' * 50 + b'!', b'\x00' * 80 + b'\x01',
              b'\t \n' * 30 + b'z', b'a' * 120, b'ab' * 40 + b'\x00' * 40 + b'c', b'.' * 64 + b'-' * 64]
    out = []
    for t in info['ls_registered']:
        for b in bodies:
            out.append(struct.pack('!HH', t, len(b)) + b)
    return out


def oracle_c11(res, r, tier, td, info, harvested):
    per_inst = {}
    muts = mutations_of_valid(info, td, r, tier, harvested)
    for inst in I.INSTANCES:
        per_inst[inst.name] = instance_inputs(info, inst, r, tier, harvested) + muts.get(inst.name, [])
    amp = amplified(td, harvested)
    res.stats.hit('amplified_containers', len(amp))
    txt = text_bodies(info)
    res.stats.hit('text_bodies', len(txt))
    per_inst['ls.attr'] = amp + txt + per_inst['ls.attr']
    for name, fn, via_update in decoders(info):
        inputs = c11_inputs(info, name, r, tier, harvested, per_inst)
        if via_update:
            inputs = [d for d in inputs if len(d) <= 4000]
            if tier == 'quick':
                inputs = inputs[::3] if len(inputs) > 6000 else inputs
        sts = run_many(fn, inputs, name)
        res.stats.hit('c11_decoders')
        nshort = 0
        for d, s in zip(inputs, sts):
            if len(d) <= 3:
                nshort += 1            # the exhaustive short strings are counted, not remembered one by one
            else:
                res.stats.case(('c11', name, d.hex()))
            res.stats.hit('c11_' + s.split(':')[0])
            if s == 'hang':
                res.fail('C11', 'decoder %s does not return within the CPU budget' % name,
                         {'kind': 'c11', 'decoder': name, 'hex': d.hex()}, key='hang')
            elif via_update and s not in ('ok', 'skipped'):
                res.fail('C11', 'Update.parse raises %s (decoder %s)' % (s, name),
                         {'kind': 'c11', 'decoder': name, 'hex': d.hex()}, key='update-raises')
        res.stats.evaluations += nshort
        res.stats.distinct.add('c11-short|%s|%d' % (name, nshort))
        res.stats.hit('c11_short_strings', nshort)
    # model side of the work bound on long inputs: iterations over all nesting levels <= octets
    longs = [d for d in per_inst['ls.attr'] if len(d) > 200][:40]
    for d, o in zip(longs, td.batch([{'op': 'tlv.deep', 'hex': d.hex()} for d in longs])):
        res.stats.case(('deep', d.hex()[:64], len(d)))
        if o.get('steps', 1 << 30) > len(d):
            res.disagree('nested step bound', {'hex': d.hex()}, None, o)


# ------------------------------------------------------------------------------------------------ (c) C15 oracle
def elements_of(inst, data, ctx):
    o = inst.observed(data, ctx)
    return o


def combine(inst, parts):
    if inst.as_dict:
        acc = {}
        for p in parts:
            acc.update(p)
        return acc
    acc = []
    for p in parts:
        acc.extend(p)
    return acc


def build_pool(info, inst, td, harvested, tier):
    """well-formed single TLVs of this kind (header + value of exactly the declared length that decodes), per context:
    for every type the shortest and the longest body <= 40 octets (and two in between) that the real decoder accepts,
    plus the TLVs of the harvested encodings"""
    name = inst.name
    shape = shape_of(info, name)
    pre = PREAMBLE.get(name, b'')
    pools = {}
    for ctx in inst.ctxs:
        pool = []
        if shape[0] == 'stride':
            for f in FILL[:3]:
                pool.append(f(shape[1]) if f is not FILL[0] else bytes(shape[1] - 1) + b'\x01')
        else:
            for t in types_for(info, name, shape):
                okl = []
                for ln in range(0, 41):
                    for f in (FILL[2], FILL[0]):
                        e = mk_hdr(shape, t, ln) + f(ln)
                        o = inst.observed(pre + e, ctx)
                        if 'ok' in o:
                            okl.append(e)
                            break
                pick = okl[:1] + okl[-1:] + okl[len(okl) // 3:len(okl) // 3 + 1] + okl[2 * len(okl) // 3:2 * len(okl) // 3 + 1]
                for e in pick:
                    if e not in pool:
                        pool.append(e)
        hs = harvested.get(name, [])
        if hs:
            for h, sp in zip(hs, td.batch([{'op': 'tlv.split', 'inst': name, 'hex': h.hex()} for h in hs])):
                if sp['stop'] != 'done':
                    continue
                for it in sp['items']:
                    e = bytes.fromhex(it['h']) + bytes.fromhex(it['v'])
                    if it['l'] * 2 == len(it['v']) and e not in pool and 'ok' in inst.observed(pre + e, ctx):
                        pool.append(e)
        pools[ctx] = pool
    return pools


def oracle_c15(res, r, tier, td, info, harvested):
    for inst in I.INSTANCES:
        name = inst.name
        shape = shape_of(info, name)
        pre = PREAMBLE.get(name, b'')
        pools = build_pool(info, inst, td, harvested, tier)
        ctxs = inst.ctxs if tier != 'quick' else inst.ctxs[-2:]
        for ctx in ctxs:
            pool = pools[ctx]
            res.stats.hit('c15_pool_%s' % name, len(pool))
            single = {}
            for e in pool:
                single[e] = inst.observed(pre + e, ctx)
            head0 = inst.observed(pre, ctx)

            def check(parts, what):
                whole = inst.observed(pre + b''.join(parts), ctx)
                res.stats.case(('c15', name, ctx, b''.join(parts).hex()), sample={'inst': name, 'parts': [p.hex()[:40] for p in parts]})
                res.stats.hit('c15_' + what)
                if 'hang' in whole:
                    if not whole.get('skipped'):
                        res.fail('C11', 'decoder %s does not return within the CPU budget' % name,
                                 {'kind': 'c11', 'decoder': '%s[%s]' % (name, ctx), 'hex': (pre + b''.join(parts)).hex()}, key='hang')
                    return
                if any('ok' not in single[p] for p in parts):
                    return
                exp = combine(inst, [single[p]['ok'] for p in parts])
                if 'ok' not in whole or not I.same(whole['ok'], exp) or not I.same(whole.get('head'), head0.get('head')):
                    res.fail('C15', 'decoding a concatenation of well-formed %s TLVs is not the concatenation of their decodings' % name,
                             {'kind': 'compose', 'inst': name, 'ctx': ctx, 'pre': pre.hex(), 'parts': [p.hex() for p in parts],
                              'whole': whole, 'expected': exp}, key='tlv-compose')
            pairs = list(itertools.product(pool, pool))
            if tier == 'quick' and len(pairs) > 2500:
                pairs = [pairs[i] for i in sorted(r.sample(range(len(pairs)), 2500))]
            for a, b in pairs:
                check([a, b], 'pair')
            for _ in range({'quick': 60, 'thorough': 3000, 'search': 600}[tier]):
                if pool:
                    check([r.choice(pool) for _ in range(r.choice([3, 4, 5, 8, 13]))], 'tuple')
            # an unknown TLV between known ones: the others decode to what they decode to without it
            if shape[0] in ('22', '12') and pool:
                # (type codes that are unknown HERE but registered with a sibling decoder - the Prefix-SID registries for the
                # link-state containers and the other way round - and the small numbers 1..8)
                siblings = sorted((set(info['psid']) | set(info['l3']) | set(info['sidinfo']) | set(range(1, 9))) if shape[0] == '22'
                                  else set(t for t in info['ls_registered'] if t < 256) | set(range(1, 9)))
                unk_types = [t for t in list(UNKNOWN_TYPES[shape[0]]) + [x for x in siblings if x not in UNKNOWN_TYPES[shape[0]]]
                             if not (name == 'psid.attr' and t in info['psid']) and not (name == 'bgpls.nlri' and t in info['nlri_known'])
                             and not (name == 'bgpls.descriptors' and 256 <= t <= 265) and not (name == 'bgpls.node_descriptor' and 512 <= t <= 517)
                             and not (shape[0] == '22' and name.startswith('ls.') and t in info['ls_registered'])
                             and not (name == 'psid.srv6_l3_service' and t in info['l3'])
                             and not (name == 'psid.srv6_sid_information' and t in info['sidinfo'])]
                for t in unk_types:
                    for ln in (0, 1, 5, 16):
                        u = mk_hdr(shape, t, ln) + FILL[2](ln)
                        ou = inst.observed(pre + u, ctx)
                        if 'ok' not in ou:
                            res.fail('C15', 'an unknown %s TLV (type %d) is not decoded on its own' % (name, t),
                                     {'kind': 'compose', 'inst': name, 'ctx': ctx, 'pre': pre.hex(), 'parts': [u.hex()], 'whole': ou},
                                     key='tlv-unknown')
                            continue
                        single[u] = ou
                        some = pool if len(pool) <= 12 else r.sample(pool, 12)
                        for a in some:
                            for b in (some[:4] if tier == 'quick' else some):
                                check([a, u, b], 'unknown_between')
                                with_u = inst.observed(pre + a + u + b, ctx)
                                without = inst.observed(pre + a + b, ctx)
                                if 'ok' not in single[a]:
                                    continue
                                if 'ok' in with_u and 'ok' in without and not inst.as_dict:
                                    na, nu = len(single[a]['ok']), len(ou['ok'])
                                    rest = with_u['ok'][:na] + with_u['ok'][na + nu:]
                                    if not I.same(rest, without['ok']):
                                        res.fail('C15', 'inserting an unknown %s TLV changes what the others decode to' % name,
                                                 {'kind': 'compose', 'inst': name, 'ctx': ctx, 'pre': pre.hex(),
                                                  'parts': [a.hex(), u.hex(), b.hex()], 'whole': with_u, 'expected': without},
                                                 key='tlv-unknown')
                                elif inst.as_dict and 'ok' in with_u and not I.same(with_u, without):
                                    res.fail('C15', 'inserting an unknown %s TLV changes what the others decode to' % name,
                                             {'kind': 'compose', 'inst': name, 'ctx': ctx, 'pre': pre.hex(),
                                              'parts': [a.hex(), u.hex(), b.hex()], 'whole': with_u, 'expected': without},
                                             key='tlv-unknown')
    oracle_attr_order(res, r, tier)


def oracle_attr_order(res, r, tier, only_ls=None):
    """permutations of the attribute list around MP_REACH_NLRI(BGP-LS) / LINK_STATE / PREFIX_SID"""
    sets = [['mp', 'ls'], ['ls', 1], ['mp', 'ls', 1], ['mp', 'ls', 40], ['mp', 'ls', 1, 40], ['mp', 'ls', 1, 4, 40]]
    if tier != 'quick':
        sets += [['mp', 'ls', 1, 2, 5], ['ls', 1, 2, 4, 40]]
    values = LS_VALUES[:5] if only_ls is None else [only_ls]
    for kinds in sets:
        for ls_val in values:
            for pro in (2, 3) if tier != 'quick' else (2,):
                ref = None
                perms = list(itertools.permutations(kinds))
                for perm in perms:
                    _, body = place_case(list(perm), ls_val, pro)
                    st, v = I.update_parse(body)
                    res.stats.case(('order', jdump(list(perm)), ls_val.hex(), pro))
                    res.stats.hit('order_perm')
                    if st != 'ok':
                        if v != 'skipped':
                            res.fail('C11', 'Update.parse %s' % ('does not return within the CPU budget' if st == 'hang' else 'raises'),
                                     {'kind': 'c11', 'decoder': 'upd.body', 'hex': body.hex()},
                                     key='hang' if st == 'hang' else 'update-raises')
                        continue
                    view = I.attr_view(v)
                    if ref is None:
                        ref = (perm, view, body)
                    elif not I.same(view, ref[1]):
                        empty = len(ls_val) == 0
                        res.fail('C15', 'permuting the path attributes changes the decoded attributes '
                                        '(%s vs %s%s)' % (list(ref[0]), list(perm), ', empty BGP-LS attribute' if empty else ''),
                                 {'kind': 'ls-order', 'attrs': list(perm), 'ref': list(ref[0]), 'ls_hex': ls_val.hex(), 'pro': pro,
                                  'hex': body.hex(), 'ref_hex': ref[2].hex(), 'decoded': view, 'ref_decoded': ref[1]},
                                 key='KF-empty-ls-attr-order' if empty else 'ls-attr-order')


# ------------------------------------------------------------------------------------------------ entry points
def run(seed, tier, driver):
    import time
    res = SuiteResult('tlv')
    r = rng_for(seed, 'tlv', tier)
    td = I.TlvDriver(driver)
    I.HANGS.clear()
    t0 = time.time()

    def lap(what):
        res.notes.append('%s: %.1fs' % (what, time.time() - t0))
    try:
        info = td.call({'op': 'tlv.instances'})
        check_inventory(res, info)
        harvested = harvest(td)
        for k, v in harvested.items():
            res.stats.hit('harvested_' + k, len(v))
        lap('inventory+harvest')
        corr_split(res, r, tier, td, info, harvested)
        lap('corr_split')
        corr_place(res, r, tier, td)
        lap('corr_place')
        oracle_c11(res, r, tier, td, info, harvested)
        lap('oracle_c11')
        oracle_c15(res, r, tier, td, info, harvested)
        lap('oracle_c15')
    finally:
        td.close()
    return res


def _replay_one(res, rp, td, info):
    kind = rp.get('kind')
    if kind == 'c11':
        for name, fn, via_update in decoders(info) + [('upd.body', lambda d: I.Update.parse(None, d, True, {}), True)]:
            if name == rp['decoder']:
                s = run_many(fn, [bytes.fromhex(rp['hex'])], 'replay:' + name)[0]
                res.stats.case(('replay', name, rp['hex']))
                if s == 'hang':
                    res.fail('C11', 'decoder %s does not return within the CPU budget' % name, rp, key='hang')
                elif via_update and s not in ('ok', 'skipped'):
                    res.fail('C11', 'Update.parse raises %s (decoder %s)' % (s, name), rp, key='update-raises')
    elif kind == 'compose':
        inst = I.BY_NAME[rp['inst']]
        pre = bytes.fromhex(rp.get('pre', ''))
        parts = [bytes.fromhex(p) for p in rp['parts']]
        ctx = rp.get('ctx')
        singles = [inst.observed(pre + p, ctx) for p in parts]
        whole = inst.observed(pre + b''.join(parts), ctx)
        res.stats.case(('replay', rp['inst'], b''.join(parts).hex()))
        if all('ok' in s for s in singles):
            exp = combine(inst, [s['ok'] for s in singles])
            if 'ok' not in whole or not I.same(whole['ok'], exp):
                res.fail('C15', 'decoding a concatenation of well-formed %s TLVs is not the concatenation of their decodings' % inst.name,
                         rp, key='tlv-compose')
    elif kind == 'ls-order':
        oracle_attr_order(res, None, 'quick', only_ls=bytes.fromhex(rp.get('ls_hex', '')))


def replay(path, driver):
    res = SuiteResult('tlv')
    td = I.TlvDriver(driver)
    try:
        info = td.call({'op': 'tlv.instances'})
        doc = json.load(open(path))
        for f in doc.get('failures', []):
            _replay_one(res, f.get('replay', {}), td, info)
        for d in doc.get('disagreements', []):
            c = d.get('case', {})
            if 'inst' in c and 'hex' in c and c['inst'] in I.BY_NAME:
                inst = I.BY_NAME[c['inst']]
                data = bytes.fromhex(c['hex'])
                sp = td.call({'op': 'tlv.split', 'inst': inst.name, 'hex': c['hex']})
                obs, exp = inst.observed(data, c.get('ctx')), inst.expected(data, c.get('ctx'), sp)
                res.stats.case(('replay', inst.name, c['hex']))
                if not I.same(obs, exp):
                    res.disagree(d.get('what', 'replay'), c, obs, exp)
    finally:
        td.close()
    return res


def replay_witness(witness, driver):
    """known-finding witnesses of this suite: {'suite': 'tlv', 'kind': 'ls-order', 'ls_hex': ''}"""
    res = SuiteResult('tlv')
    td = I.TlvDriver(driver)
    try:
        info = td.call({'op': 'tlv.instances'})
        _replay_one(res, witness, td, info)
    finally:
        td.close()
    return res
