"""Suite `evf` - property C07 part b (EVPN route types 1-4(5) and IPv4 flowspec inside MP_REACH_NLRI /
MP_UNREACH_NLRI) and the C15 compositionality of the EVPN route list and the flowspec rule / component lists.

  * correspondence: lean/Yabgp/Model/Mp/{Evpn,Flowspec,EvfWrap}.lean (ops of lean/Yabgp/Driver/EvfOps.lean) against
    yabgp/message/attribute/nlri/evpn.py, ipv4_flowspec.py and the (25,70)/(1,133) branches of mpreachnlri.py /
    mpunreachnlri.py of /repo's working tree, on constructed values (in and out of range), on every truncation and on
    mutations of their encodings, on exhaustive small scopes and on the byte literals of the repo's own tests;
  * round-trip oracle on the real code over the value space of the property text (RD types 0/1/2 at field boundaries,
    ESI types 0..5 small and large, MAC/IP presence, labels {0,1,3,15,16,2^20-1}, 1..n routes, flowspec components
    with = < > <= >= on 1/2/4(/8)-octet values joined by & and |, every prefix length 0..32);
  * compositionality oracle on the real code: decode(a||b) = decode(a) + decode(b) for EVPN route lists, flowspec
    rule lists and component lists, and an EVPN entry of an unknown route type between known ones changes nothing.

The model side is the shared native driver when it already speaks these ops, else an own process
(`lake env lean --run Yabgp/Driver/EvfMain.lean`)."""
import atexit
import json
import subprocess
import threading

from lib.base import SuiteResult, rng_for, jdump, has_unmodelled, LEAN_DIR
from lib import astscan
from gen import values as G
import impl_evf as I

PROP = 'C07'


# ---------------------------------------------------------------------------------------------- Lean side
class OwnDriver(object):
    def __init__(self):
        b = subprocess.run(['lake', 'build', 'Yabgp.Driver.EvfOps'], cwd=LEAN_DIR, stdout=subprocess.PIPE,
                           stderr=subprocess.STDOUT, text=True)
        if b.returncode != 0:
            raise RuntimeError('lake build Yabgp.Driver.EvfOps failed:\n' + b.stdout[-2000:])
        self.p = subprocess.Popen(['lake', 'env', 'lean', '--run', 'Yabgp/Driver/EvfMain.lean'], cwd=LEAN_DIR,
                                  stdin=subprocess.PIPE, stdout=subprocess.PIPE, text=True, bufsize=1 << 16)
        self.n = 0

    def call(self, req):
        self.p.stdin.write(json.dumps(req, separators=(',', ':')) + '\n')
        self.p.stdin.flush()
        line = self.p.stdout.readline()
        if not line:
            raise RuntimeError('evf driver died on request %r' % (req,))
        self.n += 1
        return json.loads(line)

    def batch(self, reqs):
        reqs = list(reqs)

        def writer():
            w = self.p.stdin
            for r in reqs:
                w.write(json.dumps(r, separators=(',', ':')) + '\n')
            w.flush()
        t = threading.Thread(target=writer)
        t.start()
        out = []
        for _ in reqs:
            line = self.p.stdout.readline()
            if not line:
                raise RuntimeError('evf driver died in batch')
            out.append(json.loads(line))
        t.join()
        self.n += len(reqs)
        return out

    def close(self):
        try:
            self.p.stdin.close()
            self.p.wait(timeout=10)
        except Exception:
            self.p.kill()


_own = None


def _close_own():
    global _own
    if _own is not None:
        _own.close()
        _own = None


atexit.register(_close_own)


def model_driver(driver):
    global _own
    if driver is not None:
        try:
            r = driver.call({'op': 'flowspec.ops.construct', 'text': '=1'})
            if isinstance(r, dict) and r.get('hex') == '8101':
                return driver
        except Exception:
            pass
    if _own is None or _own.p.poll() is not None:
        _own = OwnDriver()
    return _own


# ---------------------------------------------------------------------------------------------- value pools
U16 = [0, 1, 255, 256, 32768, 65535]
U32 = [0, 1, 255, 256, 65535, 65536, 2 ** 31, 2 ** 32 - 1]
MACS = [0, 1, 0x001122334455, 0x4c1fccec1773, 2 ** 24, 2 ** 47, 2 ** 48 - 1]
LABELS = [0, 1, 3, 15, 16, 2 ** 20 - 1]
V4 = [0, 1, 0x0b0b0b01, 0xc0a80001, 2 ** 31, 2 ** 32 - 1]
V6 = [0, 1, 2 ** 32 - 1, 2 ** 32, (0x20010db8 << 96) | 1, (0xfe80 << 112) | 0x1234, 2 ** 127, 2 ** 128 - 1,
      0xffff0a000001, 0x0a000001, (0x64ff9b << 104) | 0xc0000201]      # ::ffff:10.0.0.1, ::10.0.0.1 (IPv4 embedded), 64:ff9b::192.0.2.1
IPS = [None] + [[4, v] for v in V4] + [[6, v] for v in V6]
RDS = ['0:0', '1:1', '65535:4294967295', '65535:0', '100:65536', '64512:7',
       '0.0.0.0:0', '1.1.1.1:65535', '255.255.255.255:1', '172.16.0.1:5904',
       '65536:0', '65536:65535', '4294967295:65535', '2147483648:1']
RDS_BAD = ['65536:65536', '4294967296:1', '1:4294967296', '1.1.1.1:65536', '70000:70000']
ESIS = ([{'type': 0, 'value': v} for v in (0, 1, 255, 256, 2 ** 32, 2 ** 64 - 1, 2 ** 71, 2 ** 72 - 1)] +
        [{'type': 1, 'value': {'ce_mac_addr': m, 'ce_port_key': k}} for m, k in
         ((0, 0), (1, 1), (0x4c1fccec1773, 2609), (2 ** 48 - 1, 65535), (2 ** 24, 256))] +
        [{'type': 2, 'value': {'rb_mac_addr': m, 'rb_priority': k}} for m, k in
         ((0, 0), (0x4c1fccec1773, 2609), (2 ** 48 - 1, 65535), (1, 255))] +
        [{'type': 3, 'value': {'sys_mac_addr': m, 'ld_value': k}} for m, k in
         ((0, 0), (1, 1), (0x001122334455, 255), (0x001122334455, 256), (2 ** 48 - 1, 65535), (5, 65536),
          (0x4c1fccec1773, 667904), (2 ** 47, 2 ** 24 - 1))] +
        [{'type': 4, 'value': {'router_id': a, 'ld_value': k}} for a, k in
         ((0, 0), (1, 1), (1277152492, 393415217), (2 ** 32 - 1, 2 ** 32 - 1), (65536, 255))] +
        [{'type': 5, 'value': {'as_num': a, 'ld_value': k}} for a, k in
         ((0, 0), (52460, 393415217), (2 ** 32 - 1, 2 ** 32 - 1), (1, 65536))])
ESIS_BAD = [{'type': 0, 'value': 2 ** 72}, {'type': 0, 'value': 2 ** 76}, {'type': 0, 'value': 2 ** 80 - 1},
            {'type': 1, 'value': {'ce_mac_addr': 1, 'ce_port_key': 65536}},
            {'type': 3, 'value': {'sys_mac_addr': 1, 'ld_value': 2 ** 24}},
            {'type': 3, 'value': {'sys_mac_addr': 1, 'ld_value': 2 ** 32}},
            {'type': 4, 'value': {'router_id': 2 ** 32, 'ld_value': 1}},
            {'type': 5, 'value': {'as_num': 1, 'ld_value': 2 ** 32}},
            {'type': 6, 'value': {}}, {'type': 255, 'value': {}}]
LABEL_STACKS = [[l] for l in LABELS] + [[16, 0], [0, 16], [0, 0], [1, 2 ** 20 - 1], [2 ** 20 - 1, 1, 3], [3, 0, 15]]
LABELS_BAD = [[2 ** 20], [2 ** 28], [2 ** 28, 1], [2 ** 20, 5]]
OPS = ['=', '>', '<', '>=', '<=']
FS_VALUES = [0, 1, 127, 128, 255, 256, 257, 32768, 65535, 65536, 65537, 2 ** 24 - 1, 2 ** 24, 2 ** 31, 2 ** 32 - 1]
FS_VALUES8 = [2 ** 32, 2 ** 40, 2 ** 64 - 1]
FS_OP_TYPES = [3, 4, 5, 6, 7, 8, 10, 11]
FS_NOT_ENCODED = [9, 12]

BASE_RD = '172.16.0.1:5904'
BASE_ESI = {'type': 0, 'value': 0}


def rt(t, **kw):
    return {'type': t, 'value': dict((k, v) for k, v in kw.items() if v is not None)}


def t1(rd=BASE_RD, esi=BASE_ESI, tag=100, label=(10,)):
    return rt(1, rd=rd, esi=esi, eth_tag_id=tag, label=list(label))


def t2(rd=BASE_RD, esi=BASE_ESI, tag=108, mac=0x001122334455, ip=None, label=(0,)):
    return rt(2, rd=rd, esi=esi, eth_tag_id=tag, mac=mac, ip=ip, label=list(label))


def t3(rd=BASE_RD, tag=100, ip=(4, 0xc0a80001)):
    return rt(3, rd=rd, eth_tag_id=tag, ip=list(ip) if ip is not None else None)


def t4(rd=BASE_RD, esi=BASE_ESI, ip=(4, 0xc0a80001)):
    return rt(4, rd=rd, esi=esi, ip=list(ip) if ip is not None else None)


def t5c(rd='65536:2', esi=0, tag=1, prefix=((4, 0x01010100), 24), gw=(4, 0x01010101), label=(10,)):
    return rt(5, rd=rd, esi=esi, eth_tag_id=tag, prefix=[list(prefix[0]), prefix[1]], gateway=list(gw), label=list(label))


def systematic_routes():
    """one dimension at a time around a base route of every type, over the whole pools (in and out of range)"""
    out = []
    for rd in RDS + RDS_BAD:
        out += [t1(rd=rd), t2(rd=rd), t3(rd=rd), t4(rd=rd)]
    for e in ESIS + ESIS_BAD:
        out += [t1(esi=e), t2(esi=e), t4(esi=e)]
    for tag in U32 + [2 ** 32]:
        out += [t1(tag=tag), t2(tag=tag), t3(tag=tag)]
    for ls in LABEL_STACKS + LABELS_BAD + [[]] + [[5] * 77, [5] * 78]:
        out += [t1(label=ls), t2(label=ls)]
    for m in MACS:
        out.append(t2(mac=m))
    for ip in IPS:
        out += [t2(ip=ip), t3(ip=ip), t4(ip=ip)]
        for ls in ([], [0], [16, 3]):
            out.append(t2(ip=ip, label=ls))
    for e in (0, 1, 2, 3, 7, 2 ** 52, 2 ** 53 - 1, 2 ** 53, 2 ** 53 + 1):
        out.append(t5c(esi=e))
    out.append(t5c(prefix=((6, (0x20013232 << 96) | 1), 64), gw=(6, (0x20013232 << 96) | 1)))
    out.append(t5c(prefix=((6, 1), 128), gw=(6, 2)))
    out.append(t5c(prefix=((4, 0), 0), gw=(4, 0), label=[0]))
    out.append(t5c(prefix=((4, 0x0a000000), 8), gw=(6, 1)))
    for lab in LABELS:
        for rd in RDS[::3]:
            out.append(t5c(rd=rd, prefix=((4, 0xc0a80100), 24), gw=(4, 0xc0a80101), label=[lab]))
            out.append(t5c(rd=rd, prefix=((6, 1), 128), gw=(6, 2 ** 32 - 1), label=[lab]))
    out.append(t5c(label=[10, 11]))
    out.append({'type': 5, 'value': {'rd': '65536:2', 'esi': {'type': 0, 'value': 0}, 'eth_tag_id': 1,
                                     'prefix': [[4, 1], 24], 'gateway': [4, 1], 'label': [10]}})
    for t in (0, 6, 7, 255):
        out.append({'type': t, 'value': {}})
    return out


def rnd_route(r, in_range=True):
    rd = r.choice(RDS if in_range or r.random() < 0.8 else RDS_BAD)
    esi = r.choice(ESIS if in_range or r.random() < 0.8 else ESIS_BAD)
    if r.random() < 0.3:
        esi = rnd_esi(r)
    tag = r.choice(U32) if r.random() < 0.5 else r.getrandbits(32)
    ip = r.choice(IPS)
    if ip is not None and r.random() < 0.4:
        ip = [4, r.getrandbits(32)] if ip[0] == 4 else [6, r.getrandbits(r.choice([8, 32, 33, 64, 128]))]
    k = r.randrange(4)
    if k == 0:
        return t1(rd, esi, tag, r.choice(LABEL_STACKS if in_range or r.random() < 0.8 else LABELS_BAD))
    if k == 1:
        return t2(rd, esi, tag, r.choice(MACS + [r.getrandbits(48)]), ip,
                  r.choice(LABEL_STACKS + [[]] if in_range or r.random() < 0.8 else LABELS_BAD))
    if k == 2:
        return t3(rd, tag, ip)
    return t4(rd, esi, ip)


def rnd_esi(r):
    t = r.randrange(6)
    if t == 0:
        return {'type': 0, 'value': r.getrandbits(r.choice([1, 8, 16, 64, 72]))}
    if t == 1:
        return {'type': 1, 'value': {'ce_mac_addr': r.getrandbits(48), 'ce_port_key': r.getrandbits(16)}}
    if t == 2:
        return {'type': 2, 'value': {'rb_mac_addr': r.getrandbits(48), 'rb_priority': r.getrandbits(16)}}
    if t == 3:
        return {'type': 3, 'value': {'sys_mac_addr': r.getrandbits(48), 'ld_value': r.getrandbits(r.choice([1, 8, 9, 16, 17, 24]))}}
    if t == 4:
        return {'type': 4, 'value': {'router_id': r.getrandbits(32), 'ld_value': r.getrandbits(32)}}
    return {'type': 5, 'value': {'as_num': r.getrandbits(32), 'ld_value': r.getrandbits(32)}}


# ---------------------------------------------------------------------------------------------- in-range predicates
def rd_ok(s):
    if not isinstance(s, str):
        return False
    a, b = s.split(':')
    if '.' in a:
        return int(b) < 65536
    a, b = int(a), int(b)
    return (a <= 65535 and b < 2 ** 32) or (65535 < a < 2 ** 32 and b < 65536)


def esi_ok(e):
    t, v = e['type'], e['value']
    if t == 0:
        return v < 2 ** 72
    if t == 1:
        return v['ce_mac_addr'] < 2 ** 48 and v['ce_port_key'] < 65536
    if t == 2:
        return v['rb_mac_addr'] < 2 ** 48 and v['rb_priority'] < 65536
    if t == 3:
        return v['sys_mac_addr'] < 2 ** 48 and v['ld_value'] < 2 ** 24
    if t == 4:
        return v['router_id'] < 2 ** 32 and v['ld_value'] < 2 ** 32
    if t == 5:
        return v['as_num'] < 2 ** 32 and v['ld_value'] < 2 ** 32
    return False


def ip_ok(ip):
    return ip is None or (ip[0] == 4 and ip[1] < 2 ** 32) or (ip[0] == 6 and ip[1] < 2 ** 128)


def labels_ok(ls):
    return all(l < 2 ** 20 for l in ls)


def route_ok(r):
    """the value space of C07 for EVPN: route types 1-4, every field in range, the route fits its 1-octet length"""
    t, v = r['type'], r['value']
    if t not in (1, 2, 3, 4) or not rd_ok(v.get('rd')):
        return False
    if t in (1, 2, 4) and not (isinstance(v.get('esi'), dict) and esi_ok(v['esi'])):
        return False
    if t in (1, 2, 3) and not v['eth_tag_id'] < 2 ** 32:
        return False
    if t == 1:
        return labels_ok(v['label']) and 1 <= len(v['label']) <= 77
    if t == 2:
        iplen = 0 if v.get('ip') is None else (4 if v['ip'][0] == 4 else 16)
        return (v['mac'] < 2 ** 48 and ip_ok(v.get('ip')) and labels_ok(v['label']) and len(v['label']) >= 1 and
                8 + 10 + 4 + 7 + 1 + iplen + 3 * len(v['label']) <= 255)
    return ip_ok(v.get('ip'))


def t5_corner(r):
    """the corner in which a type 5 route decodes back (C07_evpn_t5): ESI number 0, one family, exactly one label"""
    v = r['value']
    return (r['type'] == 5 and v.get('esi') == 0 and rd_ok(v.get('rd')) and v['eth_tag_id'] < 2 ** 32 and
            v['prefix'][1] <= (32 if v['prefix'][0][0] == 4 else 128) and ip_ok(v['prefix'][0]) and ip_ok(v['gateway']) and
            v['prefix'][0][0] == v['gateway'][0] and len(v['label']) == 1 and labels_ok(v['label']))


def t5_expect(r):
    v = dict(r['value'])
    v['esi'] = {'type': 0, 'value': 0}
    return {'type': 5, 'value': v}


def route_class(r):
    """names the defect class of a failing EVPN input (key of the failure)"""
    v = r['value']
    e = v.get('esi')
    if isinstance(e, dict) and e['type'] == 3 and e['value']['ld_value'] < 2 ** 16:
        return 'evpn-esi3-ld-width'
    ip = v.get('ip')
    if ip is not None and ip[0] == 6 and ip[1] < 2 ** 32:
        return 'evpn-ipv6-below-2^32-decodes-as-ipv4'
    return 'evpn-roundtrip'


# ---------------------------------------------------------------------------------------------- flowspec values
def ops_text(groups):
    """[[(op, value), ...], ...] = OR of AND-groups -> '=254|>=254&<=300'"""
    return '|'.join('&'.join('%s%d' % (op, v) for op, v in g) for g in groups)


def rnd_groups(r, values=None, big=False):
    values = values or FS_VALUES
    n = r.choice([1, 1, 2, 3, 5]) if not big else r.choice([30, 49, 60])
    out = []
    for _ in range(n):
        k = r.choice([1, 1, 1, 2, 3])
        out.append([(r.choice(OPS), r.choice(values) if r.random() < 0.7 else r.getrandbits(r.choice([7, 8, 9, 16, 17, 24, 32])))
                    for _ in range(k)])
    return out


def fs_prefixes():
    return G.all_prefixes()


def systematic_rules():
    out = []
    for p in fs_prefixes():
        out.append([[1, p]])
    for p in fs_prefixes()[::7]:
        out.append([[2, p]])
        out.append([[1, p], [2, '10.0.0.0/8'], [5, '=80']])
    for t in FS_OP_TYPES:
        for op in OPS:
            for v in FS_VALUES + FS_VALUES8:
                out.append([[t, '%s%d' % (op, v)]])
    for op1 in OPS:
        for op2 in OPS:
            out.append([[5, '%s80&%s90' % (op1, op2)]])
            out.append([[5, '%s80|%s90' % (op1, op2)]])
            out.append([[10, '=254|%s254&%s300' % (op1, op2)]])
            out.append([[6, '%s1&%s65536&=7|=9' % (op1, op2)]])
    out.append([[t, '=%d' % t] for t in [1, 2][:0] + FS_OP_TYPES])
    out.append([[1, '192.85.2.0/24'], [2, '192.85.1.0/24']] + [[t, '>=%d&<=%d' % (t, 1000 * t)] for t in FS_OP_TYPES])
    for t in FS_NOT_ENCODED:
        out.append([[t, '=40']])
        out.append([[5, '=80'], [t, '=40']])
    # the 1-octet / 2-octet length boundary and the 12-bit limit: bodies of exactly these sizes
    for L in (238, 239, 240, 241, 242, 255, 256, 257, 4093, 4094, 4095, 4096, 4097):
        out.append(rule_of_len(L))
    for n in (78, 79, 80, 81, 120, 1000, 1364, 1365, 1366):
        out.append([[5, '|'.join('=%d' % (1000 + (i % 60000)) for i in range(n))]])
    out.append([[5, '|'.join('=%d' % (70000 + i) for i in range(48))]])
    return out


def rule_of_len(L):
    """a flow specification whose components take exactly L octets: k 2-octet values under type 5 (1 + 3k octets)
    and m 1-octet values under type 3 (1 + 2m octets)"""
    for m in (1, 2, 3):
        if (L - 2 - 2 * m) % 3 == 0 and (L - 2 - 2 * m) // 3 >= 1:
            k = (L - 2 - 2 * m) // 3
            return [[3, '|'.join('=%d' % (i % 200) for i in range(m))],
                    [5, '|'.join('=%d' % (1000 + (i % 60000)) for i in range(k))]]
    raise ValueError(L)


ODD_TEXTS = ['', '=', '80', '=80|90', '=80|', '|=80', '&=80', '=80&', '=8x', '>=<=5', '==5', '=>5', '<>5', '>5<',
             '=080', '=00', '>=80&<=90&=85', '=65535', '=65536', '=16777215', '=16777216', '=4294967295', '=4294967296',
             '=18446744073709551615', '=18446744073709551616', '>', '<', '>=', '<=', '=1|=2|', '||', '&&', '=1&&=2',
             '=1|&=2', '5>', '5<=', '5>=3', '1.1.1.0/24', '=1.5', '>=80&<=90', '<=1&>=1', 'a', '=0x10', '>=', '=<5',
             '<5>6', '=5|>', '= 5', '=+5', '=-0', '=1_0', '=5 ']


def rule_ok(pairs):
    """the value space of C07 for one flow specification (canonical operator texts only, see rule_from_groups)"""
    seen = set()
    for t, v in pairs:
        if t in seen or t not in [1, 2] + FS_OP_TYPES:
            return False
        seen.add(t)
    return len(pairs) > 0


def rule_body_len(pairs):
    """octets the components of a canonical flow specification take (FsOk of the Lean side: below 4096)"""
    n = 0
    for t, v in pairs:
        if t in (1, 2):
            n += 2 + (int(v.split('/')[1]) + 7) // 8
        elif t in FS_OP_TYPES:
            n += 1
            for item in v.replace('&', '|').split('|'):
                x = int(item.lstrip('=<>'))
                n += 1 + (1 if x < 256 else 2 if x < 65536 else 4 if x < 2 ** 32 else 8)
    return n


def rule_class(pairs, hexlen=None):
    for t, v in pairs:
        if t in FS_NOT_ENCODED:
            return 'KF-flowspec-component-9-12-not-encoded'
    for t, v in pairs:
        if t in (1, 2) and v.endswith('/0'):
            return 'flowspec-prefix-length-0'
    for t, v in pairs:
        if t not in (1, 2) and '&' in v:
            return 'flowspec-and-items-dropped'
    for t, v in pairs:
        if t not in (1, 2):
            for item in v.replace('&', '|').split('|'):
                n = int(item.lstrip('=<>') or 0)
                if 65536 <= n < 2 ** 24 or n >= 2 ** 32:
                    return 'flowspec-value-width'
    if hexlen is not None and hexlen >= 240:
        return 'flowspec-extended-length'
    return 'flowspec-roundtrip'


def canonical_pfx(p):
    """construct_prefix keeps ceil(len/8) octets: network-form prefixes (gen.values.net) satisfy that"""
    return p


# ---------------------------------------------------------------------------------------------- helpers
def cmp(res, what, case, io, mo):
    """one correspondence comparison; returns True when it counted"""
    if 'error' in mo or has_unmodelled(mo):
        res.stats.skipped += 1
        res.stats.hit('skipped_' + what)
        return False
    res.stats.case((what, jdump(case)), sample={'op': what, 'case': case, 'impl': io} if len(jdump(case)) < 400 else None)
    kind = 'ok' if ('ok' in io or 'hex' in io) else ('raise' if 'raise' in io else next(iter(io)))
    res.stats.hit('%s_%s' % (what, kind))
    if io != mo:
        res.disagree(what, case, io, mo)
    return True


def truncations(b, r, cap=48):
    if len(b) <= cap:
        return [b[:i] for i in range(len(b))]
    idx = sorted(set([0, 1, 2, 3, len(b) - 1, len(b) - 2] + [r.randrange(len(b)) for _ in range(cap // 2)]))
    return [b[:i] for i in idx]


# ---------------------------------------------------------------------------------------------- the run
def run(seed, tier, driver):
    res = SuiteResult('evf')
    r = rng_for(seed, 'evf', tier)
    md = model_driver(driver)
    res.notes.append('model side: %s' % ('shared native driver' if md is driver else 'own process (lake env lean --run Yabgp/Driver/EvfMain.lean)'))
    quick = tier == 'quick'
    n_rand = 400 if quick else 20000

    evpn_hex = []      # encodings of route lists produced by the real code (for parse correspondence / composition)
    fs_hex = []        # (rule body without length, whole rule with length)
    good_routes = []   # in-range routes with their encodings
    good_rules = []

    # ---------------- A1. EVPN construct correspondence + round-trip oracle (route lists of 1..n)
    lists = [[x] for x in systematic_routes()]
    for _ in range(n_rand):
        n = r.choice([1, 1, 2, 3, 5])
        lists.append([rnd_route(r, in_range=r.random() < 0.85) for _ in range(n)])
    mres = md.batch([{'op': 'evpn.construct', 'routes': l} for l in lists])
    for l, mo in zip(lists, mres):
        io = I.evpn_construct(l)
        cmp(res, 'evpn.construct', l, io, mo)
        inr = all(route_ok(x) for x in l)
        for x in l:
            res.stats.hit('evpn_type_%s' % x['type'])
        if 'hex' in io:
            evpn_hex.append(bytes.fromhex(io['hex']))
        if len(l) == 1 and t5_corner(l[0]):
            res.stats.hit('evpn_t5_corner_roundtrip')
            back = I.evpn_parse(bytes.fromhex(io['hex'])) if 'hex' in io else io
            if back != {'ok': [t5_expect(l[0])]}:
                res.fail(PROP, 'EVPN type 5: decode(construct(route)) != route (ESI 0, one family, one label)',
                         {'kind': 'evpn_t5', 'routes': l, 'impl': io, 'decoded': back}, key='evpn-t5-corner-roundtrip')
        if inr:
            res.stats.hit('evpn_roundtrip')
            key = route_class(next((x for x in l if route_class(x) != 'evpn-roundtrip'), l[0]))
            if 'hex' not in io:
                res.fail(PROP, 'EVPN.construct raises on an in-range route list', {'kind': 'evpn', 'routes': l, 'impl': io}, key=key)
                continue
            back = I.evpn_parse(bytes.fromhex(io['hex']))
            if back != {'ok': l}:
                res.fail(PROP, 'EVPN: decode(construct(routes)) != routes',
                         {'kind': 'evpn', 'routes': l, 'hex': io['hex'], 'decoded': back}, key=key)
            else:
                good_routes.append((l, bytes.fromhex(io['hex'])))

    # ---------------- A2. ESI construct / parse
    esis = ESIS + ESIS_BAD + [rnd_esi(r) for _ in range(100 if quick else 3000)]
    mres = md.batch([{'op': 'evpn.esi.construct', 'esi': e} for e in esis])
    esi_hex = []
    for e, mo in zip(esis, mres):
        io = I.esi_construct(e)
        cmp(res, 'evpn.esi.construct', e, io, mo)
        if 'hex' in io:
            esi_hex.append(bytes.fromhex(io['hex']))
            if esi_ok(e):
                back = I.esi_parse(bytes.fromhex(io['hex']))
                if len(io['hex']) != 20 or back != {'ok': e}:
                    res.fail(PROP, 'ESI: parse_esi(construct_esi(e)) != e or not 10 octets',
                             {'kind': 'esi', 'esi': e, 'hex': io['hex'], 'decoded': back},
                             key='evpn-esi3-ld-width' if e['type'] == 3 else 'evpn-esi-roundtrip')
    pin = []
    for t in list(range(8)) + [255]:
        for n in range(0, 12):
            pin.append(bytes([t]) + bytes([(i * 37 + 1) & 255 for i in range(n)]))
            pin.append(bytes([t]) + bytes(n))
    pin += esi_hex + [b'']
    mres = md.batch([{'op': 'evpn.esi.parse', 'hex': b.hex()} for b in pin])
    for b, mo in zip(pin, mres):
        cmp(res, 'evpn.esi.parse', b.hex(), I.esi_parse(b), mo)

    # ---------------- A3. flowspec operator texts
    texts = list(ODD_TEXTS)
    for _ in range(n_rand):
        texts.append(ops_text(rnd_groups(r, FS_VALUES + FS_VALUES8)))
    alphabet = '0123456789=<>&|' * 3 + 'x./a'
    for _ in range(n_rand // 2):
        texts.append(''.join(r.choice(alphabet) for _ in range(r.choice([1, 2, 3, 4, 6, 9]))))
    mres = md.batch([{'op': 'flowspec.ops.construct', 'text': t} for t in texts])
    ops_hex = []
    for t, mo in zip(texts, mres):
        io = I.ops_construct(t)
        cmp(res, 'flowspec.ops.construct', t, io, mo)
        if 'hex' in io:
            ops_hex.append(bytes.fromhex(io['hex']))

    # ---------------- A4. flow specifications (rules): construct correspondence + round trip
    rules = systematic_rules()
    for _ in range(n_rand):
        types = r.sample([1, 2] + FS_OP_TYPES, r.choice([1, 1, 2, 3, 6, 10]))
        if r.random() < 0.05:
            types.append(r.choice(FS_NOT_ENCODED))
        rule = []
        for t in sorted(types):
            if t in (1, 2):
                rule.append([t, G.rnd_prefix(r)])
            else:
                rule.append([t, ops_text(rnd_groups(r, big=r.random() < 0.02))])
        rules.append(rule)
    for t in ODD_TEXTS[:20]:
        rules.append([[5, t]])
        rules.append([[1, '10.0.0.0/8'], [6, t]])
    rules += [[], [[1, '10.1.2.3/8']], [[1, '10.1.2.3/16']], [[1, '10.1.2.3/24']], [[1, '10.1.2.3/32']], [[2, '10.1.2.3/33']],
              [[1, '10.1.2.3/255']], [[1, '10.1.2.3/256']], [[1, '=80']], [[5, '10.0.0.0/8']], [[13, '=1']], [[0, '=1']]]
    mres = md.batch([{'op': 'flowspec.construct', 'rule': x} for x in rules])
    for rule, mo in zip(rules, mres):
        io = I.fs_construct(rule)
        cmp(res, 'flowspec.construct', rule, io, mo)
        for t, _ in rule:
            res.stats.hit('fs_component_%s' % t)
        canonical = _canonical_rule(rule)
        if 'hex' in io:
            whole = bytes.fromhex(io['hex'])
            body = whole[2:] if len(whole) >= 242 else whole[1:]
            fs_hex.append((body, whole))
            if whole:
                ALL_RULE_WIRES.append(whole)
        has_ne = any(t in FS_NOT_ENCODED for t, _ in rule)
        if canonical and rule_body_len(rule) < 4096 and \
                (rule_ok(rule) or (has_ne and rule_ok([p for p in rule if p[0] not in FS_NOT_ENCODED] or [[5, '=1']]))):
            res.stats.hit('fs_roundtrip')
            if 'hex' not in io:
                res.fail(PROP, 'IPv4FlowSpec.construct_nlri fails on an in-range flow specification',
                         {'kind': 'fs_rule', 'rule': rule, 'impl': io}, key=rule_class(rule))
                continue
            whole = bytes.fromhex(io['hex'])
            back = I.mpunreach_parse(b'\x00\x01\x85' + whole)
            exp = {'ok': {'afi_safi': [1, 133], 'withdraw': [sorted(rule)]}}
            if back != exp:
                res.fail(PROP, 'flowspec: decode(construct(rule)) != rule',
                         {'kind': 'fs_rule', 'rule': rule, 'hex': io['hex'], 'decoded': back}, key=rule_class(rule, len(whole)))
            else:
                good_rules.append((rule, whole))

    # ---------------- A5. MP_REACH / MP_UNREACH values
    vals = []
    nhs = [[4, v] for v in V4[:4]] + [[6, v] for v in V6]
    for nh in nhs:
        vals.append(('reach', {'afi_safi': [25, 70], 'nexthop': nh, 'nlri': [t3(), t2()]}, True))
        vals.append(('reach', {'afi_safi': [1, 133], 'nexthop': nh, 'nlri': [[[1, '10.0.0.0/8'], [5, '>=80&<=90']]]}, True))
    vals.append(('reach', {'afi_safi': [1, 133], 'nexthop': '', 'nlri': [[[5, '=80']]]}, True))
    vals.append(('reach', {'afi_safi': [1, 133], 'nexthop': '', 'nlri': []}, False))
    vals.append(('reach', {'afi_safi': [1, 133], 'nexthop': '', 'nlri': [[]]}, False))
    vals.append(('reach', {'afi_safi': [25, 70], 'nexthop': '', 'nlri': [t3()]}, False))
    vals.append(('reach', {'afi_safi': [25, 70], 'nexthop': [4, 1], 'nlri': []}, True))
    vals.append(('unreach', {'afi_safi': [25, 70], 'withdraw': []}, False))
    vals.append(('unreach', {'afi_safi': [1, 133], 'withdraw': []}, False))
    vals.append(('unreach', {'afi_safi': [1, 133], 'withdraw': [[]]}, False))
    vals.append(('unreach', {'afi_safi': [25, 70], 'withdraw': [{'type': 9, 'value': {}}]}, False))
    for _ in range(n_rand):
        fam = r.choice([(25, 70), (1, 133)])
        n = r.choice([1, 1, 2, 3, 6])
        if fam == (25, 70):
            if not good_routes:
                continue
            nl = [x for _ in range(n) for x in r.choice(good_routes)[0]][:8]
        else:
            if not good_rules:
                continue
            nl = [r.choice(good_rules)[0] for _ in range(n)]
            if sum(len(jdump(x)) for x in nl) > 8000:
                nl = nl[:1]
        if r.random() < 0.5:
            nh = r.choice(nhs) if fam == (25, 70) or r.random() < 0.7 else ''
            vals.append(('reach', {'afi_safi': list(fam), 'nexthop': nh, 'nlri': nl}, True))
        else:
            vals.append(('unreach', {'afi_safi': list(fam), 'withdraw': nl}, True))
    mres = md.batch([{'op': 'evf.mp%s.construct' % k, 'value': v} for k, v, _ in vals])
    attr_vals = []
    for (k, v, valid), mo in zip(vals, mres):
        io = I.mpreach_construct(v) if k == 'reach' else I.mpunreach_construct(v)
        cmp(res, 'evf.mp%s.construct' % k, v, io, mo)
        res.stats.hit('mp%s_%s_%s' % (k, v['afi_safi'][0], v['afi_safi'][1]))
        if not valid:
            continue
        if 'hex' not in io:
            res.fail(PROP, 'MP_%sREACH_NLRI construct fails on an in-range value' % ('UN' if k == 'unreach' else ''),
                     {'kind': 'mp' + k, 'value': v, 'impl': io}, key='mp-wrapper-roundtrip')
            continue
        wire = bytes.fromhex(io['hex'])
        code = 14 if k == 'reach' else 15
        if wire[0] != 0x90 or wire[1] != code or wire[2] * 256 + wire[3] != len(wire) - 4:
            res.fail(PROP, 'constructed MP attribute has a wrong header', {'kind': 'mp' + k, 'value': v, 'hex': io['hex']},
                     key='mp-wrapper-header')
            continue
        attr_vals.append((k, wire[4:]))
        back = I.mpreach_parse(wire[4:]) if k == 'reach' else I.mpunreach_parse(wire[4:])
        exp = dict(v)
        nlk = 'nlri' if k == 'reach' else 'withdraw'
        if v['afi_safi'] == [1, 133]:
            exp[nlk] = [sorted(x) for x in v[nlk]]
        if back != {'ok': exp}:
            nh = v.get('nexthop')
            key = 'mp-nexthop-ipv6-below-2^32-decodes-as-ipv4' if (isinstance(nh, list) and nh[0] == 6 and nh[1] < 2 ** 32) \
                else 'mp-wrapper-roundtrip'
            res.fail(PROP, 'MP attribute: decode(construct(v)) != v',
                     {'kind': 'mp' + k, 'value': v, 'hex': io['hex'], 'decoded': back}, key=key)

    # ---------------- B. parse correspondence on encodings, truncations, mutations, small scopes, corpus
    lits = astscan.harvest_byte_literals()
    res.stats.hit('corpus_literals', len(lits))
    n_mut = 2 if quick else 12

    def expand(pool, cap):
        out = []
        pool = list(pool)
        r.shuffle(pool)
        for b in pool[:cap]:
            out.append(b)
            out += truncations(b, r, 24 if quick else 64)
            out += [G.mutate(r, b) for _ in range(n_mut)]
        return out

    cap = 150 if quick else 4000
    # integer literals of the modelled sources (+-1): a changed constant moves its own boundary into the pools
    src_ints = astscan.harvest_ints(['yabgp/message/attribute/nlri/evpn.py', 'yabgp/message/attribute/nlri/ipv4_flowspec.py',
                                     'yabgp/message/attribute/nlri/__init__.py'])
    res.stats.hit('source_constants', len(src_ints))
    small_ints = sorted(set(x for x in src_ints if x < 90))
    # EVPN route lists
    pin = expand(evpn_hex, cap) + lits
    for t in list(range(8)) + [255]:
        for n in sorted(set((0, 1, 2, 7, 8, 12, 13, 17, 18, 19, 22, 23, 25, 29, 30, 33, 34, 35, 37, 46, 58) + tuple(small_ints))):
            for fill in (0, 0xff, None):
                body = bytes([(i * 29 + 3) & 255 if fill is None else fill for i in range(n)])
                pin.append(bytes([t, n]) + body)
                pin.append(bytes([t, n + 1]) + body)
                pin.append(bytes([t, max(n - 1, 0)]) + body + b'\x03\x00')
    for x in range(256):
        pin.append(bytes([x]))
        pin.append(bytes([x, 0]))
        pin.append(bytes([2, 33]) + bytes(29) + bytes([x]) + bytes(3))          # every IP length octet of a type 2 route
        pin.append(bytes([3, 29]) + bytes(12) + bytes([x]) + bytes([1] * 16))   # ... of a type 3 route
        pin.append(bytes([4, 35]) + bytes(18) + bytes([x]) + bytes([255] * 16))
        pin.append(bytes([1, 25]) + bytes([0, x & 3]) + bytes(23))              # RD types
        pin.append(bytes([4, 23]) + bytes(8) + bytes([x & 7]) + bytes([x] * 9) + bytes([32, 1, 2, 3, 4]))   # ESI types
    mres = md.batch([{'op': 'evpn.parse', 'hex': b.hex()} for b in pin])
    for b, mo in zip(pin, mres):
        cmp(res, 'evpn.parse', b.hex(), I.evpn_parse(b), mo)

    # operator lists
    pin = expand(ops_hex, cap) + [bytes([x]) for x in range(256)] + lits
    for f in range(256):
        for tail in (b'\x00', b'\x81\x01', b'\x01\x02\x03\x04\x05\x06\x07\x08\x81\x09', b'\xff' * 9):
            pin.append(bytes([f]) + tail)
    mres = md.batch([{'op': 'flowspec.ops.parse', 'hex': b.hex()} for b in pin])
    for b, mo in zip(pin, mres):
        cmp(res, 'flowspec.ops.parse', b.hex(), I.ops_parse(b), mo)

    # flow specifications (IPv4FlowSpec.parse)
    pin = expand([b for b, _ in fs_hex], cap) + lits
    for t in range(0, 16):
        for tail in (b'', b'\x00', b'\x18\x01\x02\x03', b'\x18\x01', b'\x21\x01\x02\x03\x04\x05\x05\x81\x01', b'\x81\x05',
                     b'\x01\x05\x81\x06\x01\x00', b'\x91\x01', b'\xff\x01\x02'):
            pin.append(bytes([t]) + tail)
    for v in src_ints:
        if v < 2 ** 32:
            w = 1 if v < 256 else (2 if v < 65536 else 4)
            pin.append(bytes([5, 0x81 | {1: 0, 2: 0x10, 4: 0x20}[w]]) + v.to_bytes(w, 'big'))
    for ln in range(0, 48):
        for k in range(0, 7):
            pin.append(bytes([1, ln]) + bytes([0xa5] * k))
            pin.append(bytes([2, ln]) + bytes([0x5a] * k) + b'\x03\x81\x06')
    mres = md.batch([{'op': 'flowspec.parse', 'hex': b.hex()} for b in pin])
    for b, mo in zip(pin, mres):
        cmp(res, 'flowspec.parse', b.hex(), I.fs_parse(b), mo)

    # MP_REACH / MP_UNREACH values
    rin = expand([b for k, b in attr_vals if k == 'reach'], cap // 2)
    uin = expand([b for k, b in attr_vals if k == 'unreach'], cap // 2)
    for fam in (b'\x00\x19\x46', b'\x00\x01\x85'):
        for b, whole in fs_hex[:60] + [(x, x) for x in evpn_hex[:60]]:
            uin.append(fam + whole)
            rin.append(fam + b'\x04\x01\x02\x03\x04\x00' + whole)
            rin.append(fam + b'\x00\x00' + whole)
        for l1 in (0, 1, 2, 3, 0xef, 0xf0, 0xf1, 0xff):
            for l2 in (0, 1, 3, 4, 0xff):
                uin.append(fam + bytes([l1, l2]) + b'\x05\x81\x50')
                uin.append(fam + bytes([l1, l2]))
                uin.append(fam + bytes([l1, l2, 5]))
                rin.append(fam + b'\x00\x00' + bytes([l1, l2]) + b'\x05\x81\x50\x03\x05\x81\x50')
        for nhl in (0, 1, 3, 4, 5, 15, 16, 17, 32, 255):
            rin.append(fam + bytes([nhl]) + bytes([0x11] * min(nhl, 40)) + b'\x00' + b'\x03\x05\x81\x50')
            rin.append(fam + bytes([nhl]) + bytes(min(nhl, 40)) + b'\x00')
    for n in range(0, 6):
        rin.append(b'\x00\x19\x46\x04'[:n])
        uin.append(b'\x00\x01\x85'[:n])
    mres = md.batch([{'op': 'evf.mpreach.parse', 'hex': b.hex()} for b in rin])
    for b, mo in zip(rin, mres):
        cmp(res, 'evf.mpreach.parse', b.hex(), I.mpreach_parse(b), mo)
    mres = md.batch([{'op': 'evf.mpunreach.parse', 'hex': b.hex()} for b in uin])
    for b, mo in zip(uin, mres):
        cmp(res, 'evf.mpunreach.parse', b.hex(), I.mpunreach_parse(b), mo)

    # ---------------- C. compositionality oracle on the real code (C15)
    compose(res, r, good_routes, good_rules, 300 if quick else 10000)
    compose_literal(res, r, 400 if quick else 10000)
    return res


def _canonical_rule(rule):
    """prefixes in network form with a length 0..32, operator texts in the form the decoder prints"""
    try:
        for t, v in rule:
            if t in (1, 2):
                a, l = _pfx(v)
                if l > 32 or v != G.net(a, l):
                    return False
            elif not _canonical_ops(v):
                return False
        return True
    except Exception:
        return False


def _pfx(v):
    a, l = v.split('/')
    o = [int(x) for x in a.split('.')]
    return ((o[0] << 24) | (o[1] << 16) | (o[2] << 8) | o[3], int(l))


def _canonical_ops(v):
    """operator text in the form the decoder prints: items '<op><decimal without leading zeros>' joined by & and |"""
    if v == '':
        return False
    for item in v.replace('&', '|').split('|'):
        op = item[:2] if item[:2] in ('>=', '<=') else item[:1]
        if op not in OPS:
            return False
        num = item[len(op):]
        if not num.isdigit() or not num.isascii() or (len(num) > 1 and num[0] == '0') or int(num) >= 2 ** 64:
            return False
    return True


ALL_RULE_WIRES = []


def compose_literal(res, r, n):
    """C15 read literally, on EVERY flow specification the constructor wrote - not only on those the code under test
    decodes back correctly (round 10: a decoder that misreads rules of 240..255 octets dropped exactly those rules from
    the pool of `compose`, which is filtered by the round trip): when a and b each decode, a || b decodes to the
    concatenation of the two results, in both orders"""
    wires = sorted(set(ALL_RULE_WIRES), key=lambda w: (len(w), w))
    if not wires:
        return
    edge = [w for w in wires if 236 <= len(w) <= 262 or len(w) >= 4000]
    single = {}

    def dec(w):
        if w not in single:
            single[w] = I.mpunreach_parse(b'\x00\x01\x85' + w)
        return single[w]
    for i in range(n):
        a = r.choice(edge) if edge and i % 3 == 0 else r.choice(wires)
        b = r.choice(edge) if edge and i % 7 == 0 else r.choice(wires)
        for x, y in ((a, b), (b, a)):
            if len(x) + len(y) > 4000:
                continue
            dx, dy = dec(x), dec(y)
            res.stats.case(('compose-fs-literal', x.hex()[:64], y.hex()[:64]))
            res.stats.hit('compose_flowspec_literal' + ('_edge' if (x in edge or y in edge) else ''))
            if 'ok' not in dx or 'ok' not in dy:
                res.stats.hit('compose_flowspec_literal_part_fails')
                continue
            got = I.mpunreach_parse(b'\x00\x01\x85' + x + y)
            exp = {'ok': {'afi_safi': [1, 133], 'withdraw': dx['ok']['withdraw'] + dy['ok']['withdraw']}}
            if got != exp:
                res.fail('C15', 'flowspec rules: decode(a||b) != decode(a)+decode(b) (each part decoded by the code itself)',
                         {'kind': 'compose_fs_literal', 'a': x.hex(), 'b': y.hex(), 'decoded_a': dx, 'decoded_b': dy, 'decoded': got},
                         key='compose-flowspec-rules')
    del ALL_RULE_WIRES[:]


def compose(res, r, good_routes, good_rules, n):
    """decode(a || b) = decode(a) + decode(b) on the real code; an unknown EVPN route type in between changes nothing"""
    for _ in range(n if good_routes else 0):
        (la, a), (lb, b) = r.choice(good_routes), r.choice(good_routes)
        res.stats.case(('compose-evpn', a.hex(), b.hex()))
        res.stats.hit('compose_evpn')
        got = I.evpn_parse(a + b)
        if got != {'ok': la + lb}:
            res.fail('C15', 'EVPN: decode(a||b) != decode(a)+decode(b)', {'kind': 'compose_evpn', 'a': a.hex(), 'b': b.hex(), 'decoded': got},
                     key='compose-evpn')
        t = r.choice([0, 6, 7, 8, 100, 255])
        body = bytes(r.getrandbits(8) for _ in range(r.choice([0, 1, 5, 33, 255])))
        u = bytes([t, len(body)]) + body
        got = I.evpn_parse(a + u + b)
        res.stats.hit('compose_evpn_unknown_type')
        if got != {'ok': la + lb}:
            res.fail('C15', 'EVPN: an entry of unknown route type between known ones changes the result',
                     {'kind': 'compose_evpn_unknown', 'a': a.hex(), 'u': u.hex(), 'b': b.hex(), 'decoded': got}, key='compose-evpn-unknown-type')
    for _ in range(n if good_rules else 0):
        (ra, a), (rb, b) = r.choice(good_rules), r.choice(good_rules)
        res.stats.case(('compose-fs', a.hex()[:64], b.hex()[:64]))
        res.stats.hit('compose_flowspec_rules')
        got = I.mpunreach_parse(b'\x00\x01\x85' + a + b)
        if got != {'ok': {'afi_safi': [1, 133], 'withdraw': [sorted(ra), sorted(rb)]}}:
            res.fail('C15', 'flowspec rules: decode(a||b) != decode(a)+decode(b)',
                     {'kind': 'compose_fs_rules', 'a': a.hex(), 'b': b.hex(), 'decoded': got}, key='compose-flowspec-rules')
        # the same through MP_REACH_NLRI (next hop absent), with a long rule (2-octet length) in front more often
        if r.random() < 0.5:
            longs = [x for x in good_rules if len(x[1]) >= 242]
            if longs:
                ra, a = r.choice(longs)
        got = I.mpreach_parse(b'\x00\x01\x85\x00\x00' + a + b)
        res.stats.hit('compose_flowspec_rules_reach' + ('_long' if len(a) >= 242 else ''))
        if got != {'ok': {'afi_safi': [1, 133], 'nexthop': '', 'nlri': [sorted(ra), sorted(rb)]}}:
            res.fail('C15', 'flowspec rules (MP_REACH): decode(a||b) != decode(a)+decode(b)',
                     {'kind': 'compose_fs_rules_reach', 'a': a.hex(), 'b': b.hex(), 'decoded': got}, key='compose-flowspec-rules')
        # component lists: the bodies without their length field, keys of b override / extend those of a
        ba = a[2:] if len(a) >= 242 else a[1:]
        bb = b[2:] if len(b) >= 242 else b[1:]
        d = dict((k, v) for k, v in ra)
        d.update(dict((k, v) for k, v in rb))
        got = I.fs_parse(ba + bb)
        res.stats.hit('compose_flowspec_components')
        if got != {'ok': [[k, d[k]] for k in sorted(d)]}:
            res.fail('C15', 'flowspec components: decode(a||b) != decode(a) updated with decode(b)',
                     {'kind': 'compose_fs_components', 'a': ba.hex(), 'b': bb.hex(), 'decoded': got}, key='compose-flowspec-components')


# ---------------------------------------------------------------------------------------------- replays
def _one(res, w):
    k = w.get('kind')
    if k == 'evpn':
        l = w['routes']
        io = I.evpn_construct(l)
        back = I.evpn_parse(bytes.fromhex(io['hex'])) if 'hex' in io else io
        if back != {'ok': l}:
            res.fail(PROP, 'EVPN: decode(construct(routes)) != routes', dict(w, decoded=back), key=w.get('key') or route_class(l[0]))
    elif k == 'fs_rule':
        rule = w['rule']
        io = I.fs_construct(rule)
        back = I.mpunreach_parse(b'\x00\x01\x85' + bytes.fromhex(io['hex'])) if 'hex' in io else io
        if back != {'ok': {'afi_safi': [1, 133], 'withdraw': [sorted(rule)]}}:
            res.fail(PROP, 'flowspec: decode(construct(rule)) != rule', dict(w, decoded=back),
                     key=w.get('key') or rule_class(rule, len(io.get('hex', '')) // 2))
    elif k in ('mpreach', 'mpunreach'):
        v = w['value']
        io = I.mpreach_construct(v) if k == 'mpreach' else I.mpunreach_construct(v)
        back = io
        if 'hex' in io:
            wire = bytes.fromhex(io['hex'])
            back = I.mpreach_parse(wire[4:]) if k == 'mpreach' else I.mpunreach_parse(wire[4:])
        if back != {'ok': v}:
            res.fail(PROP, 'MP attribute: decode(construct(v)) != v', dict(w, decoded=back), key=w.get('key') or 'mp-wrapper-roundtrip')


def replay_witness(witness, driver):
    res = SuiteResult('evf')
    _one(res, witness)
    return res


def replay(path, driver):
    res = SuiteResult('evf')
    data = json.load(open(path))
    for f in data.get('failures', []):
        _one(res, f.get('replay', {}))
    return res
