"""Correspondence suite `msglog` (Model/MsgLog.lean vs yabgp/handler/default_handler.py) and the C20 oracle.

A history is a list of harness operations
    ['tick', dt] | ['cb', callback, msg] | ['restart'] | ['crash', callback, msg, off]
run on the real DefaultHandler in a scratch directory (impl_msglog.ImplLog) and, translated to the model's alphabet
(tick / event / rotate / crash / restart), on the Lean model.  After EVERY operation the directory of the
implementation (file names, per line [seq, type, bytes] or junk, bytes after the last newline) and the outcome of a
start (running / sys.exit) are compared with the model (the tie), and the audit of Spec/LogSpec.lean - evaluated by the
Lean driver on what the auditor reads from the real directory - plus "a start never refuses" and "one callback, one
line" are evaluated on the implementation (the oracle for the property itself).

Scopes: every callback with a restart after every event x rotation thresholds forcing 0..3+ rotations; for every event
position of the base histories a crash at EVERY byte offset of that write (0 .. bytes+1) followed by restart, further
events, a second restart and the audit; boundary scenarios (crash right after a rotation / right after the first open,
two crashes in a row, clock collisions); random histories over the whole alphabet.
"""
import json


def _no_constant(name):
    raise ValueError('%s is not JSON' % name)


def strict_loads(text):
    """JSON as RFC 8259 defines it: the tokens Infinity, -Infinity and NaN (which Python's decoder accepts) are refused"""
    return json.loads(text, parse_constant=_no_constant)
import os
import subprocess

from lib.base import SuiteResult, rng_for, jdump, LEAN_DIR
import impl_msglog as I

PROP = 'C20'
KF_REFUSED = 'KF-C20-restart-refused-torn-tail'
KF_REUSED = 'KF-C20-seq-restarts-empty-newest-file'
KF_JOINED = 'KF-C20-record-joined-to-unterminated-line'

UPD_S = {'attr': {'1': 0}, 'nlri': ['10.0.0.0/8']}
UPD_M = {'attr': {'1': 0, '2': [[2, [65001, 65002]]], '3': '192.0.2.1', '5': 100}, 'nlri': ['198.51.100.0/24'],
         'withdraw': [], 'afi_safi': 'ipv4'}
UPD_L = {'attr': {'1': 2, '2': [[2, list(range(65000, 65012))]], '3': '192.0.2.1', '8': ['65001:%d' % i for i in range(12)]},
         'nlri': ['203.0.%d.0/24' % i for i in range(10)], 'withdraw': ['10.%d.0.0/16' % i for i in range(6)],
         'afi_safi': 'ipv4'}
OPEN = {'version': 4, 'asn': 65001, 'hold_time': 180, 'bgp_id': '1.1.1.1',
        'capabilities': {'four_bytes_as': True, 'route_refresh': True, 'afi_safi': [[1, 1]]}}
NOTIF = {'error': 'Cease', 'sub_error': None, 'data': "b''"}
RR = {'afi': 1, 'res': 0, 'safi': 1}
UPD_ERR = {'attr': {'1': 0}, 'nlri': [], 'withdraw': [], 'sub_error': 9, 'err_data': "b'\\x00\\n'"}

# a record longer than the largest BGP message (an UPDATE of many prefixes is one line of more than 4096 characters)
UPD_XL = {'attr': {'1': 0, '2': [[2, [65001, 65002]]], '3': '10.0.0.1'},
          'nlri': ['10.%d.%d.0/24' % (i // 250, i % 250) for i in range(420)], 'withdraw': []}
# the largest legal UPDATE: 4096 octets hold about 1300 two-octet prefixes - one line of about 25 000 characters (round 10: a
# recovery that reads only the last 16 KB of the newest file was unseen while no torn tail was longer than that)
UPD_XXL = {'attr': {'1': 0, '2': [[2, [65001]]], '3': '10.0.0.1'},
           'nlri': ['%d.%d.0.0/16' % (10 + i // 256, i % 256) for i in range(1300)], 'withdraw': []}

PAYLOADS = {
    'update': [UPD_S, UPD_M, UPD_L, UPD_XL, {'attr': {}, 'nlri': [], 'withdraw': []}, {'x': 'line1\nline2 é "q"'}],
    'update_error': [UPD_ERR, {}],
    'keepalive': [None],
    'send_open': [OPEN],
    'open_received': [OPEN, None, {}],
    'route_refresh': [RR],
    'cisco_route_refresh': [RR],
    'notification': [NOTIF, {'error': None, 'sub_error': None, 'data': ''}],
    'connection_lost': [None],
    'connection_failed': ['Connection refused', 'a\nb', '', None],
    'established': [0],
    'check_file_size': [None],
}
ALL_CBS = ['send_open', 'open_received', 'keepalive', 'update', 'update_error', 'route_refresh', 'cisco_route_refresh',
           'notification', 'connection_lost', 'connection_failed', 'established', 'check_file_size']
THRESHOLDS = [10 ** 9, 700, 330, 120, 1, 0]


class OwnDriver(object):
    """the stand-alone model driver (lake env lean --run Yabgp/Driver/MsgLogMain.lean), line protocol"""

    def __init__(self):
        self.p = subprocess.Popen(['lake', 'env', 'lean', '--run', 'Yabgp/Driver/MsgLogMain.lean'], cwd=LEAN_DIR,
                                  stdin=subprocess.PIPE, stdout=subprocess.PIPE, text=True, bufsize=1 << 16)

    def call(self, req):
        self.p.stdin.write(json.dumps(req, separators=(',', ':')) + '\n')
        self.p.stdin.flush()
        line = self.p.stdout.readline()
        if not line:
            raise RuntimeError('msglog driver died on %r' % (req,))
        return strict_loads(line)

    def close(self):
        try:
            self.p.stdin.close()
            self.p.wait(timeout=10)
        except Exception:  # noqa
            self.p.kill()


def model_driver(driver):
    """the shared native driver when it knows the msglog ops, the stand-alone one otherwise; (driver, owned)"""
    if driver is not None:
        try:
            r = driver.call({'op': 'msglog.reset', 'max_size': 0})
            if 'files' in r:
                return driver, False
        except Exception:  # noqa
            pass
    return OwnDriver(), True


# ---------------------------------------------------------------------------------------------------------------------
def translate(history, write_keepalive):
    """model operations of a history; for every harness op the index of the last model op it stands for (or None)"""
    ops, idx = [], []
    n = 0
    for h in history:
        if h[0] == 'tick':
            ops.append({'k': 'tick', 'dt': h[1]})
            n += h[1]
        elif h[0] == 'restart':
            ops.append({'k': 'restart'})
        elif h[0] == 'cb':
            ops.extend(I.model_ops(h[1], h[2], n, write_keepalive))
        elif h[0] == 'crash':
            c = I.model_crash(h[1], h[2], n, h[3], write_keepalive)
            if c is not None:
                ops.append(c)
        else:
            raise ValueError(h)
        idx.append(len(ops) - 1 if ops else None)
    return ops, idx


def seq_class(view, running):
    """why the audit fails on this view (python reading of the same audit, used to name the failure class)"""
    lines = [s for f in view for s in f['lines']]
    if any(s is None for s in lines):
        return 'broken-line'
    k = 1
    for s in lines:
        if s != k:
            return 'seq-reused' if s < k else 'seq-gap'
        k += 1
    names = [f['name'] for f in view]
    if len(set(names)) != len(names):
        return 'duplicate-name'
    torn = [i for i, f in enumerate(view) if f['torn']]
    if running and torn:
        return 'torn-while-running'
    if torn and torn != [len(view) - 1]:
        return 'torn-in-older-file'
    return None


class Ctx(object):
    """what the directory looked like at some earlier start of the history (names the known classes of failure;
    sticky, because a joined line or a reused number stays in the log for the rest of the history)"""

    def __init__(self):
        self.had_tail = False
        self.newest_empty = False

    def at_restart(self, obs):
        self.had_tail = self.had_tail or (bool(obs) and obs[-1]['tail'] > 0)
        self.newest_empty = self.newest_empty or (bool(obs) and not obs[-1]['lines'] and any(f['lines'] for f in obs[:-1]))


def key_for(cls, ctx):
    if cls == 'restart-refused' and ctx.had_tail:
        return KF_REFUSED
    if cls == 'seq-reused' and ctx.newest_empty:
        return KF_REUSED
    if cls in ('broken-line', 'torn-while-running') and ctx.had_tail:
        return KF_JOINED
    return cls


def run_history(res, mdrv, cfg, history, audits, tag, variant='fixed', count=True):
    """runs one history on the implementation and on the model, compares after every operation.
    cfg = {'max_size':.., 'write_keepalive':.., 'addr':..}.  Appends the views to audit to `audits`.
    Returns the number of disagreements found."""
    wk = cfg.get('write_keepalive', True)
    ops, idx = translate(history, wk)
    mres = mdrv.call({'op': 'msglog.run', 'max_size': cfg['max_size'], 'variant': variant, 'ops': ops})
    if 'obs' not in mres:
        raise RuntimeError('model driver: %r' % (mres,))
    mobs = mres['obs']
    empty = {'files': [], 'alive': False, 'refused': False, 'audit': True}
    replay = {'suite': 'msglog', 'cfg': cfg, 'history': history}
    L = I.ImplLog(tag, cfg['max_size'], wk, cfg.get('addr', '10.0.0.1'))
    ndis = 0
    ctx = Ctx()
    try:
        for i, h in enumerate(history):
            before = L.observe()
            was_alive = L.handler is not None
            outcome = None
            if h[0] == 'tick':
                L.tick(h[1])
            elif h[0] == 'restart':
                ctx.at_restart(before)
                outcome = L.restart()
            elif h[0] == 'cb':
                L.call(h[1], h[2])
                if getattr(L, 'last_raise', None):
                    res.fail(PROP, 'the handler callback for a reported event (%s) raised %s: the event has no complete record'
                             % (h[1], L.last_raise), dict(replay, history=history[:i + 1]), key='callback-raised')
            elif h[0] == 'crash' and I.model_crash(h[1], h[2], 0, h[3], wk) is not None:
                anomaly = L.crash_in(h[1], h[2], h[3])       # (a callback that writes nothing cannot be torn)
                if anomaly:
                    res.fail(PROP, anomaly, dict(replay, history=history[:i + 1]), key='not-append-only')
            after = L.observe()
            alive = L.handler is not None
            m = mobs[idx[i]] if idx[i] is not None else empty
            io = {'files': after, 'alive': alive, 'refused': L.refused}
            mo = {'files': m['files'], 'alive': m['alive'], 'refused': m['refused']}
            if count:
                res.stats.hit('op_' + h[0] + ('_' + h[1] if h[0] in ('cb',) else ''))
            if io != mo and ndis == 0:
                ndis += 1
                if variant == 'fixed':
                    res.disagree('directory after op %d %s' % (i, jdump(h)[:60]), {'cfg': cfg, 'history': history[:i + 1]}, io, mo)
                else:
                    break
            if variant != 'fixed':
                continue
            if ndis == 0 and not m.get('audit', True):
                res.disagree('the model fails its own audit (contradicts C20_gapfree)', replay, io, m)
            # ---- the property itself, on the implementation
            if h[0] == 'restart' and outcome != 'ok':
                res.fail(PROP, 'a start on the handler\'s own log ends in %s' % ('sys.exit()' if outcome == 'refused' else outcome),
                         dict(replay, history=history[:i + 1]), key=key_for('restart-refused', ctx))
            if h[0] == 'restart' and [l for f in before for l in f['lines']] != [l for f in after for l in f['lines']]:
                res.fail(PROP, 'a start changed the complete lines of the log (a reported record was lost or rewritten)',
                         dict(replay, history=history[:i + 1]), key='recovery-changed-records')
            if h[0] == 'cb' and was_alive and alive:
                nb = sum(len(f['lines']) for f in before)
                na = sum(len(f['lines']) for f in after)
                want = len([o for o in I.model_ops(h[1], h[2], 0, wk) if o['k'] == 'event'])
                if na - nb != want:
                    res.fail(PROP, 'callback %s appended %d lines instead of %d' % (h[1], na - nb, want),
                             dict(replay, history=history[:i + 1]), key=key_for('broken-line', ctx))
            audits.append((I.spec_view(after), alive, dict(replay, history=history[:i + 1]),
                           (ctx.had_tail, ctx.newest_empty)))
        if not L.lexicographic_order_is_numeric():
            res.notes.append('file names whose lexicographic order is not their numeric order: %r' % sorted(L.raw()))
            res.stats.hit('name_order_not_numeric')
        if count:
            nrot = max(0, len(L.raw()) - 1)
            res.stats.hit('rotations_%s' % (nrot if nrot < 4 else '4+'))
    finally:
        L.close()
    return ndis


def flush_audits(res, mdrv, audits):
    """evaluate Spec/LogSpec.audit (Lean) on the views read from the real directory"""
    seen = {}
    for view, running, replay, c in audits:
        k = (jdump(view), running)
        if k in seen:
            ok = seen[k]
        else:
            r = mdrv.call({'op': 'spec.logaudit', 'files': view, 'running': running})
            if 'audit' not in r:
                raise RuntimeError('model driver: %r' % (r,))
            ok = seen[k] = r['audit']
        cls = seq_class(view, running)
        if ok != (cls is None):
            res.disagree('Lean audit vs python reading of the audit', replay, cls, ok)
        if not ok:
            ctx = Ctx()
            ctx.had_tail, ctx.newest_empty = c
            res.fail(PROP, 'audit of the real directory fails: %s' % (cls or 'audit'), replay, key=key_for(cls or 'audit-false', ctx))
    res.stats.hit('audits', len(audits))
    res.stats.hit('audits_distinct', len(seen))
    del audits[:]


def do_history(res, mdrv, cfg, history, audits, tag, count=True):
    key = jdump([cfg, history])
    res.stats.case(key, nontrivial=any(h[0] != 'tick' for h in history),
                   sample={'cfg': cfg, 'history': history[:8]})
    n = run_history(res, mdrv, cfg, history, audits, tag, 'fixed', count)
    if n:
        res.stats.hit('disagreeing_histories')
        scratch = SuiteResult('msglog-orig')
        if run_history(scratch, mdrv, cfg, history, [], tag, 'orig', False) == 0:
            note = 'on a disagreeing history the implementation behaves like the start-up code BEFORE the repair (model variant orig)'
            if note not in res.notes:
                res.notes.append(note)
            res.stats.hit('agrees_with_orig_variant')


# ---------------------------------------------------------------------------------------------------------------------
CONT = [['cb', 'update', UPD_S], ['tick', 1], ['cb', 'keepalive', None], ['cb', 'update', UPD_M], ['restart'],
        ['cb', 'notification', NOTIF]]


def base_histories():
    b1 = [['restart'], ['cb', 'send_open', OPEN], ['tick', 1], ['cb', 'open_received', OPEN], ['cb', 'update', UPD_M],
          ['tick', 2], ['cb', 'update', UPD_S], ['tick', 1], ['cb', 'update', UPD_M], ['tick', 1], ['cb', 'update', UPD_S],
          ['cb', 'connection_lost', None]]
    b2 = [['restart'], ['cb', 'update', UPD_S], ['tick', 1], ['cb', 'update', UPD_S], ['cb', 'connection_failed', 'x']]
    return [b1, b2]


def every_offset(res, mdrv, cfg, base, audits, tier):
    """for every event of `base`: the write torn at every byte offset, then restart, CONT, audit"""
    wk = cfg.get('write_keepalive', True)
    for i, h in enumerate(base):
        if h[0] != 'cb' or not [o for o in I.model_ops(h[1], h[2], 0, wk) if o['k'] == 'event']:
            continue
        # how many bytes does this write have?  (run the prefix once and look)
        L = I.ImplLog('probe', cfg['max_size'], wk)
        try:
            for g in base[:i]:
                if g[0] == 'tick':
                    L.tick(g[1])
                elif g[0] == 'restart':
                    L.restart()
                else:
                    L.call(g[1], g[2])
            nb = sum(len(v) for v in L.raw().values())
            L.call(h[1], h[2])
            written = sum(len(v) for v in L.raw().values()) - nb
        finally:
            L.close()
        res.stats.hit('offset_positions')
        for off in range(0, written + 2):
            hist = base[:i] + [['crash', h[1], h[2], off], ['restart']] + CONT
            do_history(res, mdrv, cfg, hist, audits, 'off', count=False)
            res.stats.hit('crash_offsets')
            # a second crash on the recovered log, torn in the middle
            if off in (1, written // 2, written - 1, written):
                hist2 = base[:i] + [['crash', h[1], h[2], off], ['restart'], ['crash', 'update', UPD_S, off], ['restart']] + CONT
                do_history(res, mdrv, cfg, hist2, audits, 'off2', count=False)


def boundary_histories():
    hs = []
    up = ['cb', 'update', UPD_M]
    # crash right after a rotation (empty newest file), right after the first open, two crashes in a row
    hs.append([['restart'], up, ['tick', 1], up, ['crash', 'update', UPD_S, 0], ['restart']] + CONT)
    hs.append([['restart'], ['crash', 'update', UPD_S, 0], ['restart']] + CONT)
    hs.append([['restart'], ['crash', 'update', UPD_S, 5], ['restart'], ['crash', 'update', UPD_S, 7], ['restart']] + CONT)
    hs.append([['restart'], ['restart'], ['restart'], up, ['restart'], ['restart']] + CONT)
    # restart right after a rotation, several times
    hs.append([['restart'], up, ['tick', 1], up, ['restart'], ['restart'], up, ['tick', 1], up, ['restart']] + CONT)
    # rotation without any tick in between: the new name collides with the open file
    hs.append([['restart'], up, up, up, ['restart'], up, ['tick', 1], up, up, ['restart']] + CONT)
    # complete JSON text whose newline is missing
    for payload in (UPD_S, UPD_M):
        n = len(I.record_text(I.BASE, 1, 2, payload))
        hs.append([['restart'], ['crash', 'update', payload, n], ['restart']] + CONT)
        hs.append([['restart'], ['crash', 'update', payload, n - 1], ['restart']] + CONT)
        hs.append([['restart'], ['crash', 'update', payload, n + 1], ['restart']] + CONT)
    # events with no handler running are lost, not written
    hs.append([['cb', 'update', UPD_S], ['restart'], ['crash', 'update', UPD_S, 3], ['cb', 'update', UPD_S], ['restart']] + CONT)
    # the last complete record before a restart is longer than 4096 characters
    hs.append([['restart'], ['cb', 'update', UPD_S], ['cb', 'update', UPD_XL], ['restart'], ['cb', 'update', UPD_S], ['restart']] + CONT)
    # a torn tail longer than any read-ahead window a recovery might use (powers of two and their neighbours), with and without
    # a complete record before it
    nxx = len(I.record_text(I.BASE, 1, 2, UPD_XXL))
    for off in (4095, 4096, 4097, 8191, 8192, 8193, 16383, 16384, 16385, 20000, nxx - 1, nxx):
        if off <= nxx:
            hs.append([['restart'], ['crash', 'update', UPD_XXL, off], ['restart']] + CONT)
            hs.append([['restart'], ['cb', 'update', UPD_S], ['cb', 'update', UPD_XXL], ['crash', 'update', UPD_XXL, off], ['restart']] + CONT)
    # check_file_size called directly, keepalives
    hs.append([['restart'], ['cb', 'check_file_size', None], ['cb', 'keepalive', None], ['tick', 3], ['cb', 'check_file_size', None],
               ['cb', 'keepalive', None], ['restart']] + CONT)
    return hs


def every_callback_history(restart_every):
    h = [['restart']]
    for cb in ALL_CBS:
        for p in PAYLOADS[cb]:
            h.append(['cb', cb, p])
            h.append(['tick', 1])
            if restart_every:
                h.append(['restart'])
    return h


def random_history(r):
    n = r.choice([6, 10, 16, 24, 40])
    h = [['restart']] if r.random() < 0.9 else []
    for _ in range(n):
        x = r.random()
        if x < 0.18:
            h.append(['tick', r.choice([0, 1, 1, 2, 5])])
        elif x < 0.30:
            h.append(['restart'])
        elif x < 0.42:
            cb = r.choice(['update', 'update', 'notification', 'send_open', 'keepalive', 'connection_failed'])
            p = r.choice(PAYLOADS[cb])
            ln = len(I.record_text(I.BASE, 1, I.EVENT_TYPES[cb], I.payload_of(cb, p)))
            off = r.choice([0, 1, 2, ln - 2, ln - 1, ln, ln + 1, ln + 2, ln + 3, r.randrange(0, ln + 3)])
            h.append(['crash', cb, p, max(0, off)])
            if r.random() < 0.85:
                h.append(['restart'])
        else:
            cb = r.choice(ALL_CBS + ['update'] * 6)
            h.append(['cb', cb, r.choice(PAYLOADS[cb])])
    h += [['restart'], ['cb', 'update', UPD_S]]
    return h


def protocol_integration(res):
    """What the PROTOCOL hands to the handler (not what this suite thinks it hands): a real session (the simulated reactor of
    impl_session) whose application handler is the real DefaultHandler with message logging on.  After every event the files
    are audited: every line a complete JSON object with the keys t, seq, type, msg; sequence numbers consecutive.
    Implementation only (the log model takes the payload as given)."""
    import shutil as _sh
    import impl_session as S
    from gen import session_gen as SG
    root = os.path.join(I.SCRATCH_ROOT, 'scratch_integration_%d' % os.getpid())
    _sh.rmtree(root, ignore_errors=True)
    os.makedirs(root)
    CONF = I.CONF
    for k, v in (('write_disk', True), ('write_dir', root), ('write_msg_max_size', 10 ** 9), ('write_keepalive', True)):
        CONF.set_override(k, v, group='message')
    try:
        sim = S.Sim({})
        real = I.dh.DefaultHandler()
        real.init()
        rec = sim.handler
        for name in ('on_update_error', 'update_received', 'keepalive_received', 'open_received', 'send_open',
                     'route_refresh_received', 'notification_received', 'on_connection_lost', 'on_connection_failed',
                     'on_established'):
            if not hasattr(rec, name) or not hasattr(real, name):
                continue

            def both(*a, _r=getattr(rec, name), _d=getattr(real, name), **kw):
                try:
                    _r(*a, **kw)        # (the harness's own recorder must not stand between the agent and its handler)
                except Exception:   # noqa
                    pass
                return _d(*a, **kw)
            setattr(rec, name, both)
        pool = dict(SG.message_pool(S.DEFAULT_CFG['remote_as']))
        script = [('boot', None), ('connok', 0), ('chunk', 'open_unknown_caps'), ('chunk', 'keepalive'), ('chunk', 'update_ok'),
                  ('chunk', 'update_bad_origin'), ('chunk', 'update_bad_prefix'), ('chunk', 'update_withdraw'), ('chunk', 'rr'),
                  ('chunk', 'rr_cisco'), ('chunk', 'update_aspath4'), ('chunk', 'update_mp_unknown_family'),
                  ('chunk', 'update_mpunreach_unknown_family'), ('chunk', 'update_max4096'), ('chunk', 'keepalive')]
        # every UPDATE the repository's own tests know (all attribute / NLRI families), and each attribute value found there
        # wrapped under the type codes whose decoders accept it: whatever they decode to must be loggable
        from lib import astscan
        import struct as _st
        mark = b'\xff' * 16
        lits = astscan.harvest_byte_literals()
        for b in lits:
            if b[:16] == mark and len(b) > 23 and b[18] == 2 and len(b) <= 4096:
                pool['lit:' + b[19:40].hex()] = b
                script.append(('chunk', 'lit:' + b[19:40].hex()))
        n = 0
        for v in lits:
            if v[:16] == mark or not (4 <= len(v) <= 1500):
                continue
            for code, flag in ((14, 0x90), (15, 0x90), (29, 0x90), (40, 0xd0), (16, 0xd0), (22, 0xd0), (23, 0xd0)):
                blk = bytes([flag, code]) + _st.pack('!H', len(v)) + v
                body = _st.pack('!H', 0) + _st.pack('!H', len(blk)) + blk
                key = 'wrap:%d:%s' % (code, v[:12].hex())
                if key not in pool:
                    pool[key] = mark + _st.pack('!HB', len(body) + 19, 2) + body
                    script.append(('chunk', key))
                    n += 1
        # values a decoder turns into floats (BGP-LS bandwidths: IEEE 754 bit patterns from the wire, infinities and NaN included)
        for tlv_type in (1089, 1090, 1091):
            for bits in ('7f800000', 'ff800000', '7fc00000', '00000000', '4b189680'):
                val = bytes.fromhex(bits) * (8 if tlv_type == 1091 else 1)
                blk = _st.pack('!HH', tlv_type, len(val)) + val
                attr = bytes([0x80, 29, len(blk)]) + blk
                body = _st.pack('!H', 0) + _st.pack('!H', len(attr)) + attr
                key = 'lsfloat:%d:%s' % (tlv_type, bits)
                pool[key] = mark + _st.pack('!HB', len(body) + 19, 2) + body
                script.append(('chunk', key))
        # BGP-LS NLRI (every NLRI type) whose descriptor list holds a TLV type the agent has no decoder for
        for nt in (1, 2, 3, 4, 6):
            desc = _st.pack('!HH', 999, 2) + b'\xab\xcd'
            nl = bytes([2]) + _st.pack('!Q', 0) + desc
            nlri = _st.pack('!HH', nt, len(nl)) + nl
            mp = _st.pack('!HB', 16388, 71) + bytes([4, 10, 0, 0, 1]) + b'\x00' + nlri
            attr = bytes.fromhex('40010100' '400200') + bytes([0x90, 14]) + _st.pack('!H', len(mp)) + mp
            body = _st.pack('!H', 0) + _st.pack('!H', len(attr)) + attr
            key = 'lsdesc:%d' % nt
            pool[key] = mark + _st.pack('!HB', len(body) + 19, 2) + body
            script.append(('chunk', key))
        # BGP-LS TLVs whose value the decoder turns into ONE integer, with values of 8, 600 and 2000 octets (a number of more than
        # 4300 decimal digits cannot be written by json.dump in CPython 3.11+)
        for tlv_type in (1088, 1092, 1095, 1028, 1155):
            for nbytes in (8, 600, 2000):
                val = bytes((i * 7 + 1) & 255 for i in range(nbytes))
                blk = _st.pack('!HH', tlv_type, len(val)) + val
                attr = bytes([0x90, 29]) + _st.pack('!H', len(blk)) + blk
                body = _st.pack('!H', 0) + _st.pack('!H', len(attr)) + attr
                key = 'lsbig:%d:%d' % (tlv_type, nbytes)
                pool[key] = mark + _st.pack('!HB', len(body) + 19, 2) + body
                script.append(('chunk', key))
        script += [('chunk', 'keepalive'), ('chunk', 'notif_cease'), ('lost', 0)]
        trace = []
        msgdir = os.path.join(root, '10.0.0.2', 'msg')
        seen = 0
        for kind, arg in script:
            ev = {'k': kind}
            if kind in ('connok', 'lost'):
                ev['c'] = arg
            elif kind == 'chunk':
                ev = {'k': 'chunk', 'c': 0, 'hex': pool[arg].hex()}
            if not sim.enabled(ev):
                continue
            sim.step(ev)
            trace.append(arg if kind == 'chunk' else kind)
            lines = []
            if os.path.isdir(msgdir):
                for fn in sorted(os.listdir(msgdir)):
                    with open(os.path.join(msgdir, fn), 'rb') as fh:
                        data = fh.read()
                    parts = data.split(b'\n')
                    lines += parts[:-1]
                    if parts[-1]:
                        res.fail(PROP, 'after a reported event the log ends in an incomplete line (%d octets)' % len(parts[-1]),
                                 {'suite': 'msglog', 'integration': trace}, key='integration-broken-line')
            for n, ln in enumerate(lines[seen:], start=seen + 1):
                try:
                    obj = strict_loads(ln.decode('utf-8'))
                    ok = isinstance(obj, dict) and set(obj) == {'t', 'seq', 'type', 'msg'} and obj['seq'] == n
                except ValueError:
                    ok = False
                if not ok:
                    res.fail(PROP, 'line %d written for what the protocol reported is not a complete record with the documented '
                                   'keys and the next sequence number: %r' % (n, ln[:120]),
                             {'suite': 'msglog', 'integration': trace}, key='integration-broken-line')
                    break
            seen = len(lines)
            res.stats.case(('integration', tuple(trace)), sample=None)
            res.stats.hit('integration_events')
        res.stats.hit('integration_lines', seen)
    finally:
        for k in ('write_disk', 'write_dir', 'write_msg_max_size', 'write_keepalive'):
            CONF.clear_override(k, group='message')
        _sh.rmtree(root, ignore_errors=True)


def run(seed, tier, driver):
    res = SuiteResult('msglog')
    r = rng_for(seed, 'msglog', tier)
    mdrv, owned = model_driver(driver)
    res.notes.append('model driver: %s' % ('stand-alone MsgLogMain.lean' if owned else 'shared native driver'))
    audits = []
    os.makedirs(I.SCRATCH_ROOT, exist_ok=True)
    try:
        protocol_integration(res)
        # (a) every callback, with and without a restart after every event, for every rotation threshold
        for ms in THRESHOLDS:
            for wk in (True, False):
                for restart_every in (True, False):
                    for addr in (('10.0.0.1', '2001:DB8::1') if ms == 330 else ('10.0.0.1',)):
                        cfg = {'max_size': ms, 'write_keepalive': wk, 'addr': addr}
                        do_history(res, mdrv, cfg, every_callback_history(restart_every), audits, 'cb')
            for h in boundary_histories():
                do_history(res, mdrv, {'max_size': ms, 'write_keepalive': True}, h, audits, 'bd')
            flush_audits(res, mdrv, audits)
        # (a') thresholds at, just below and just above the exact size of the file after its first / second record
        for payload in (UPD_S, UPD_M):
            n1 = len(I.record_text(I.BASE + I.TICK, 1, 2, payload)) + 1
            n2 = n1 + len(I.record_text(I.BASE + 2 * I.TICK, 2, 2, payload)) + 1
            for ms in (n1 - 1, n1, n1 + 1, n2 - 1, n2, n2 + 1):
                h = [['restart'], ['tick', 1], ['cb', 'update', payload], ['tick', 1], ['cb', 'update', payload],
                     ['tick', 1], ['cb', 'update', payload], ['restart']] + CONT
                do_history(res, mdrv, {'max_size': ms, 'write_keepalive': True}, h, audits, 'ex')
        flush_audits(res, mdrv, audits)
        # (b) every byte offset of every write of the base histories
        bases = base_histories()
        plan = [(330, bases[0]), (10 ** 9, bases[1]), (1, bases[1])] if tier in ('quick', 'search') else \
            [(ms, b) for ms in THRESHOLDS for b in bases]
        for ms, b in plan:
            every_offset(res, mdrv, {'max_size': ms, 'write_keepalive': True}, b, audits, tier)
            flush_audits(res, mdrv, audits)
        # (c) random histories over the whole alphabet
        n_rand = 300 if tier == 'quick' else 30000
        if tier == 'search':
            n_rand = 3000
        for i in range(n_rand):
            cfg = {'max_size': r.choice(THRESHOLDS + [200, 500]), 'write_keepalive': r.random() < 0.7}
            do_history(res, mdrv, cfg, random_history(r), audits, 'rnd')
            if len(audits) > 4000:
                flush_audits(res, mdrv, audits)
        flush_audits(res, mdrv, audits)
    finally:
        if owned:
            mdrv.close()
        _cleanup()
    return res


SEARCH = True


def _cleanup():
    """scratch directories are removed; /tmp/build/C20 itself is left alone when it holds other things"""
    import shutil
    if os.path.isdir(I.SCRATCH_ROOT):
        for fn in os.listdir(I.SCRATCH_ROOT):
            if fn.startswith('scratch_') and fn.endswith('_%d' % os.getpid()):
                shutil.rmtree(os.path.join(I.SCRATCH_ROOT, fn), ignore_errors=True)
        try:
            os.rmdir(I.SCRATCH_ROOT)
        except OSError:
            pass


def _replay_cases(res, cases, driver):
    mdrv, owned = model_driver(driver)
    audits = []
    os.makedirs(I.SCRATCH_ROOT, exist_ok=True)
    try:
        for c in cases:
            do_history(res, mdrv, c.get('cfg') or {'max_size': c.get('max_size', 10 ** 9)}, c['history'], audits, 'rp')
        flush_audits(res, mdrv, audits)
    finally:
        if owned:
            mdrv.close()
        _cleanup()
    return res


def replay(path, driver):
    """re-run the histories of a replay file written by check.py"""
    doc = json.load(open(path))
    cases = [f['replay'] for f in doc.get('failures', []) if isinstance(f.get('replay'), dict) and 'history' in f['replay']]
    for d in doc.get('disagreements', []) + [x for b in doc.get('broken_correspondence', []) for x in b.get('disagreements', [])]:
        if isinstance(d.get('case'), dict) and 'history' in d['case']:
            cases.append(d['case'])
    return _replay_cases(SuiteResult('msglog'), cases, driver)


def replay_witness(witness, driver):
    """known-finding witness: {'suite': 'msglog', 'cfg': {...}, 'history': [...]}"""
    return _replay_cases(SuiteResult('msglog'), [witness], driver)
