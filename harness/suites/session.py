"""Correspondence suite `session`: the same event list is applied to the real BGPPeering (over the stand-in
reactor) and to the Lean session model; after EVERY event the canonical observations are compared.
Event lists: breadth-first exploration with state de-duplication (every enabled event of the alphabet from
every canonical state up to a depth), seeded random walks, timer-heavy walks, the corpus."""
import json
import os

from lib.base import SuiteResult, rng_for, jdump, VERIF
from gen import session_gen as SG
import impl_session as S
from oracles import Monitor

CONFIGS = [
    {},
    {'hold_time': 0},
    {'hold_time': 3, 'connect_retry_time': 10},
    {'hold_time': 9, 'connect_retry_time': 45, 'idle_hold_time': 5},
    {'local_as': 4200000001, 'remote_as': 4200000002},
    {'hold_time': 65535, 'caps': {'four_bytes_as': False, 'route_refresh': True, 'cisco_route_refresh': False,
                                  'enhanced_route_refresh': False, 'graceful_restart': False,
                                  'cisco_multi_session': False, 'add_path': None, 'afi_safi': [[1, 1]]}},
    {'hold_time': 30, 'caps': {'four_bytes_as': True, 'route_refresh': False, 'add_path': 3,
                               'afi_safi': [[1, 1], [1, 128]], 'ext_nexthop': [[1, 1, 2]]}},
    # a 4-octet local AS whose capability dictionary does not ask for the capability, and the largest 2-octet AS
    {'local_as': 4200000001, 'remote_as': 4200000002,
     'caps': {'four_bytes_as': False, 'route_refresh': True, 'cisco_route_refresh': True, 'enhanced_route_refresh': True,
              'graceful_restart': False, 'cisco_multi_session': False, 'add_path': None, 'afi_safi': [[1, 1]]}},
    {'local_as': 65535, 'remote_as': 65534},
    {'hold_time': 5, 'connect_retry_time': 7, 'idle_hold_time': 2},
    {'local_as': 65535, 'remote_as': 65534,
     'caps': {'four_bytes_as': False, 'route_refresh': True, 'cisco_route_refresh': False, 'enhanced_route_refresh': False,
              'graceful_restart': False, 'cisco_multi_session': False, 'add_path': None, 'afi_safi': [[1, 1]]}},
    # TCP MD5 signatures configured (a password that is not ASCII), retry timer shorter than the 30 s TCP connect timeout
    {'md5': 'p\u00e4ssw\u00f6rd', 'connect_retry_time': 8, 'idle_hold_time': 3},
    # no damping at all: the idle-hold time is 0 (a reconnect is due the moment the previous attempt or session ended)
    {'idle_hold_time': 0, 'connect_retry_time': 8, 'hold_time': 30},
]


def model_cfg(c):
    full = dict(S.DEFAULT_CFG)
    full.update(c)
    import netaddr
    return {'local_as': full['local_as'], 'remote_as': full['remote_as'], 'hold_time': full['hold_time'],
            'connect_retry_time': full['connect_retry_time'], 'idle_hold_time': full['idle_hold_time'],
            'local_id': int(netaddr.IPAddress(full['local_host'])), 'caps': full['caps']}


def candidate_events(sim, pool, r=None, split=True, booted=True):
    """the alphabet of C01 instantiated in the current simulated world"""
    w = sim.world
    evs = [{'k': 'start'}, {'k': 'stop'}]
    if not booted:
        # the agent's one deferred reactor.callLater(bgp_peer_call_later_time, automatic_start) has not run yet:
        # the operator (REST) may start / stop the peer before it does
        evs.append({'k': 'boot'})
    for c in w.connectors:
        if c.state == 'connecting':
            evs.append({'k': 'connok', 'c': c.id})
            evs.append({'k': 'connfail', 'c': c.id, 'why': 'refused'})
        elif c.state == 'connected':
            for label, b in pool:
                evs.append({'k': 'chunk', 'c': c.id, 'hex': b.hex(), 'label': label})
            evs.append({'k': 'lost', 'c': c.id})
        elif c.state == 'closing':
            evs.append({'k': 'lost', 'c': c.id})
    due = w.due()
    if due:
        for c in due:
            n = S.TIMER_NAMES.get(getattr(c.func, '__name__', None))
            if n:
                evs.append({'k': 'fire', 't': n})
    elif w.calls:
        nxt = min(c.time for c in w.calls)
        evs.append({'k': 'advance', 'dt': nxt - w.now})
        if nxt - w.now > 1:
            evs.append({'k': 'advance', 'dt': 1})
    else:
        evs.append({'k': 'advance', 'dt': 30})
    return evs


def strip(ev):
    return {k: v for k, v in ev.items() if k != 'label'}


def state_key(obs):
    now = obs['now']
    tm = {k: [d - now for d in v] for k, v in obs['timers'].items()}
    live = sorted(p for p in obs['conns'] if p != 'disconnected')
    proto_phase = obs['conns'][obs['proto']] if obs['proto'] is not None else None
    return jdump([obs['state'], tm, live, proto_phase])


class Pair(object):
    """implementation and model side by side"""

    def __init__(self, conf, driver, res):
        self.conf = conf
        self.sim = S.Sim(conf)
        self.driver = driver
        self.res = res
        r = driver.call({'op': 'sess.reset', 'cfg': model_cfg(conf)})
        assert r.get('ok'), r
        self.trace = []
        self.ok = True
        self.skip = False
        self.last = None
        full = dict(S.DEFAULT_CFG)
        full.update(conf)
        self.mon = Monitor(res, conf, full)

    def step(self, ev):
        ev = strip(ev)
        io = self.sim.step(ev)
        self.trace.append(ev)
        self.last = io
        self.mon.step(ev, io, self.sim)
        if not self.ok or self.skip:
            return io          # model and implementation already diverged: keep driving the implementation only
        mo = self.driver.call({'op': 'sess.ev', 'ev': ev})
        if any(o == ['unmodelled'] for o in mo.get('outs', [])):
            self.skip = True
            self.res.stats.skipped += 1
            return io
        if io != mo:
            self.ok = False
            self.res.disagree('session step', {'cfg': self.conf, 'events': list(self.trace)}, io, mo)
        return io


def settle(p):
    """the reactor delivers the connectionLost it still owes for every connection the agent closed: only then does
    "closed cleanly with its reconnect scheduled" become decidable (a close that is owed counts as scheduled until then)"""
    for _ in range(4):
        closing = [c.id for c in p.sim.world.connectors if c.state == 'closing']
        if not closing:
            break
        for cid in closing:
            if p.sim.enabled({'k': 'lost', 'c': cid}):
                p.step({'k': 'lost', 'c': cid})


def run_walk(conf, events, driver, res):
    p = Pair(conf, driver, res)
    for ev in events:
        if not p.sim.enabled(ev):
            break
        p.step(ev)
        if not p.ok or p.skip:
            break
    return p


def bfs(conf, driver, res, depth, pool, budget):
    """every enabled event from every distinct canonical state, breadth first"""
    seen = {}
    frontier = [[{'k': 'boot'}], [{'k': 'start'}], [{'k': 'stop'}]]
    hit = {}
    n_events = 0
    for level in range(depth):
        nxt = []
        for path in frontier:
            # replay once to list the candidate events in that state
            p = Pair(conf, driver, res)
            for ev in path:
                p.step(ev)
            if not p.ok or p.skip:
                continue
            cands = candidate_events(p.sim, pool, booted=any(e['k'] == 'boot' for e in path))
            pre_state = p.last['state']
            for ev in cands:
                q = Pair(conf, driver, res)
                for e2 in path:
                    q.step(e2)
                o = q.step(ev)
                n_events += len(path) + 1
                res.stats.case(('bfs', jdump(conf), jdump(path + [strip(ev)])),
                               sample={'cfg': conf, 'events': path + [strip(ev)], 'obs': o})
                cls = ev.get('label') or (ev['k'] + ('_' + ev['t'] if 't' in ev else ''))
                hit[(pre_state, cls)] = hit.get((pre_state, cls), 0) + 1
                if q.skip or not q.ok:
                    continue       # diverged from the model: reported; keep exploring for the property oracles
                key = state_key(o)
                if key not in seen:
                    seen[key] = path + [strip(ev)]
                    nxt.append(path + [strip(ev)])
                if n_events > budget:
                    return seen, hit, n_events, True
        frontier = nxt
    return seen, hit, n_events, True


def random_walk(conf, driver, res, r, pool, length, bias):
    p = Pair(conf, driver, res)
    late_boot = r.random() < 0.15
    p.step({'k': r.choice(['start', 'stop', 'start'])} if late_boot else {'k': 'boot'})
    for _ in range(length):
        cands = candidate_events(p.sim, pool, booted=any(e['k'] == 'boot' for e in p.trace))
        weights = []
        pending = any(c.state == 'connecting' for c in p.sim.world.connectors)
        for ev in cands:
            k = ev['k']
            lab = ev.get('label', '')
            wgt = 1.0
            if k in ('start', 'stop'):
                wgt = 0.15 if bias == 'session' else 0.6
            elif k == 'connok':
                wgt = 4.0
            elif k == 'chunk':
                if lab in ('open_ok', 'keepalive', 'open_hold0', 'open_hold3', 'update_ok'):
                    wgt = 2.5 if bias == 'session' else 0.5
                else:
                    wgt = 0.12
            elif k in ('fire', 'advance'):
                wgt = 3.0 if bias != 'chaos' else 1.0
            elif k == 'lost':
                wgt = 0.4
            elif k == 'connfail':
                wgt = 0.8
            weights.append(wgt)
        ev = r.choices(cands, weights)[0]
        if ev['k'] == 'chunk' and r.random() < 0.25:
            # deliver the frame in two segments, or two frames in one segment
            b = bytes.fromhex(ev['hex'])
            if r.random() < 0.5 and len(b) > 1:
                cut = r.randrange(1, len(b))
                p.step({'k': 'chunk', 'c': ev['c'], 'hex': b[:cut].hex()})
                if p.skip or not p.sim.enabled({'k': 'chunk', 'c': ev['c']}):
                    break
                ev = {'k': 'chunk', 'c': ev['c'], 'hex': b[cut:].hex()}
            else:
                other = r.choice(pool)[1]
                ev = {'k': 'chunk', 'c': ev['c'], 'hex': (b + other).hex()}
        o = p.step(ev)
        res.stats.hit('walk_event_' + ev['k'])
        res.stats.hit('walk_state_' + o['state'])
        if p.skip:
            break
    res.stats.case(('walk', jdump(conf), jdump(p.trace)), sample=None)
    return p


def run(seed, tier, driver):
    res = SuiteResult('session')
    r = rng_for(seed, 'session', tier)
    # corpus first
    cdir = os.path.join(VERIF, 'corpus', 'session')
    if os.path.isdir(cdir):
        for fn in sorted(os.listdir(cdir)):
            c = json.load(open(os.path.join(cdir, fn)))
            run_walk(c['cfg'], c['events'], driver, res)
            res.stats.hit('corpus')
    depth, budget = (4, 60000) if tier == 'quick' else (6, 3000000)
    allhit = {}
    for ci, conf in enumerate(CONFIGS[:3] if tier == 'quick' else CONFIGS):
        full = dict(S.DEFAULT_CFG); full.update(conf)
        pool = SG.message_pool(full['remote_as'])
        seen, hit, n, ok = bfs(conf, driver, res, depth if ci == 0 else max(3, depth - 1), pool, budget)
        res.stats.hit('bfs_states_cfg%d' % ci, len(seen))
        res.stats.hit('bfs_events', n)
        for k, v in hit.items():
            allhit['%s|%s' % k] = allhit.get('%s|%s' % k, 0) + v
        if not ok:
            break
    res.stats.hist['state_event_matrix_cells'] = len(allhit)
    # scripted sessions, every configuration: each OPEN variant, then KEEPALIVE, then each message of the pool, then every
    # timer that is due is fired (so that what a message did to the timers shows), then one more KEEPALIVE
    for conf in CONFIGS:
        full = dict(S.DEFAULT_CFG); full.update(conf)
        pool = SG.message_pool(full['remote_as'])
        opens = [(l, b) for l, b in pool if l in ('open_ok', 'open_nocaps', 'open_hold0', 'open_hold3', 'open_hold65535',
                                                  'open_hold4', 'open_hold8', 'open_hold20', 'open_unknown_caps')]
        follow = [(l, b) for l, b in pool if not l.startswith('open') and not l.startswith('bad_')]
        if tier == 'quick':
            opens = opens[:1] + r.sample(opens[1:], 3)
        for ol, ob in opens:
            for fl, fb in follow:
                p = Pair(conf, driver, res)
                p.step({'k': 'boot'})
                p.step({'k': 'connok', 'c': 0})
                p.step({'k': 'chunk', 'c': 0, 'hex': ob.hex()})
                if not p.sim.enabled({'k': 'chunk', 'c': 0}):
                    continue
                # the peer's first KEEPALIVE and its next message arrive some time after the previous one (so that a timer
                # which is not restarted shows): a gap short of every deadline
                for gap in (2, 1):
                    if p.sim.enabled({'k': 'advance', 'dt': gap}):
                        p.step({'k': 'advance', 'dt': gap})
                        break
                p.step({'k': 'chunk', 'c': 0, 'hex': SG.KEEPALIVE.hex()})
                if p.last['state'] != 'ESTABLISHED' or not p.sim.enabled({'k': 'chunk', 'c': 0}):
                    continue
                if p.sim.enabled({'k': 'advance', 'dt': 1}):
                    p.step({'k': 'advance', 'dt': 1})
                o = p.step({'k': 'chunk', 'c': 0, 'hex': fb.hex()})
                was_update = fb[18] == 2
                for _ in range(4):
                    due = [S.TIMER_NAMES.get(getattr(c.func, '__name__', None)) for c in p.sim.world.due()]
                    due = [d for d in due if d]
                    if not due:
                        break
                    o = p.step({'k': 'fire', 't': due[0]})
                if was_update and o['state'] != 'ESTABLISHED' and not any(x[0] == 'unmodelled' for x in o['outs']):
                    res.fail('C10', 'an UPDATE (%s) tore down an Established session (directly or through the timers it touched)' % fl,
                             {'cfg': conf, 'events': list(p.trace)}, key='update-teardown')
                if p.sim.enabled({'k': 'chunk', 'c': 0}):
                    p.step({'k': 'chunk', 'c': 0, 'hex': SG.KEEPALIVE.hex()})
                settle(p)
                res.stats.case(('script', jdump(conf), ol, fl), sample=None)
                res.stats.hit('script_' + fl.split('_')[0])
    two_sessions(driver, res, r, tier)
    after_the_end(driver, res, r, tier)
    slow_peer(driver, res, r, tier)
    late_loss(driver, res, r, tier)
    handler_faults(res, r, tier)
    shipped_handler(res, r, tier)
    octet_tables(driver, res, r, tier)
    nwalks = 150 if tier == 'quick' else 6000
    for i in range(nwalks):
        conf = r.choice(CONFIGS)
        full = dict(S.DEFAULT_CFG); full.update(conf)
        pool = SG.message_pool(full['remote_as'])
        random_walk(conf, driver, res, r, pool, r.choice([20, 40, 80]), r.choice(['session', 'session', 'chaos', 'timers']))
    return res


def after_the_end(driver, res, r, tier):
    """What a session that has ended leaves behind: a session is brought to OpenSent / OpenConfirm / Established, ended in
    every way the pool knows (each message, the connection lost, operator stop), then - the operator starting the peer again
    where it is stopped or idle - time runs on with the peer not answering the new connection attempt: every timer that comes
    due is fired.  Lockstep with the model; the Monitor judges every step (a left-over timer acting on the new attempt: C01)."""
    confs = [{'hold_time': 9, 'connect_retry_time': 45, 'idle_hold_time': 5}, {'hold_time': 30}, {}]
    if tier == 'quick':
        confs = confs[:2]
    for conf in confs:
        full = dict(S.DEFAULT_CFG); full.update(conf)
        pool = SG.message_pool(full['remote_as'])
        d = dict(pool)
        enders = [('chunk', l) for l, _ in pool if not l.startswith('open_') or l in ('open_ok', 'open_badver', 'open_hold1')]
        enders += [('lost', None), ('stop', None)]
        for depth in (0, 1, 2):        # OpenSent, OpenConfirm, Established
            for kind, lab in enders:
                for restart in (True, False):
                    p = Pair(conf, driver, res)
                    p.step({'k': 'boot'})
                    p.step({'k': 'connok', 'c': 0})
                    if depth >= 1:
                        p.step({'k': 'chunk', 'c': 0, 'hex': d['open_hold8' if conf.get('hold_time') == 30 else 'open_ok'].hex()})
                    if depth >= 2:
                        p.step({'k': 'chunk', 'c': 0, 'hex': SG.KEEPALIVE.hex()})
                    if p.sim.enabled({'k': 'advance', 'dt': 2}):
                        p.step({'k': 'advance', 'dt': 2})
                    ev = {'k': kind} if kind == 'stop' else ({'k': 'lost', 'c': 0} if kind == 'lost' else
                                                              {'k': 'chunk', 'c': 0, 'hex': d[lab].hex()})
                    if not p.sim.enabled(ev):
                        continue
                    p.step(ev)
                    if p.sim.enabled({'k': 'lost', 'c': 0}) and p.sim.world.connectors[0].state == 'closing':
                        p.step({'k': 'lost', 'c': 0})
                    if restart and p.last['state'] == 'IDLE':
                        p.step({'k': 'start'})
                    for _ in range(10):
                        if p.skip:
                            break
                        w = p.sim.world
                        due = [S.TIMER_NAMES.get(getattr(c.func, '__name__', None)) for c in w.due()]
                        due = [x for x in due if x]
                        if due:
                            p.step({'k': 'fire', 't': due[0]})
                            continue
                        times = [c.time for c in w.calls if c.time > w.now]
                        if not times:
                            break
                        p.step({'k': 'advance', 'dt': min(times) - w.now})
                    res.stats.case(('after-the-end', jdump(conf), depth, kind, lab, restart), sample=None)
                    res.stats.hit('after_the_end')


def slow_peer(driver, res, r, tier):
    """A peer that does not answer the TCP handshake for a long time: the connect-retry timer fires (once, twice, three times)
    with attempts still in flight, then the operator stops the peer - and only THEN the old handshakes complete, oldest
    first, each answered by the peer's OPEN; later the operator starts the peer again.  Lockstep with the model; the Monitor
    judges C12 (one attempt at a time) and C13 (nothing is sent, nothing connects after the stop) on every step."""
    for conf in ({}, {'connect_retry_time': 8, 'idle_hold_time': 3}, {'hold_time': 9, 'connect_retry_time': 45, 'idle_hold_time': 5},
                 {'idle_hold_time': 0, 'connect_retry_time': 8}):
        full = dict(S.DEFAULT_CFG); full.update(conf)
        pool = dict(SG.message_pool(full['remote_as']))
        for nretry in (1, 2, 3):
            for stop_first in (True, False):
                p = Pair(conf, driver, res)
                p.step({'k': 'boot'})
                for _ in range(nretry):
                    w = p.sim.world
                    times = [c.time for c in w.calls if c.time > w.now]
                    if times and p.sim.enabled({'k': 'advance', 'dt': min(times) - w.now}):
                        p.step({'k': 'advance', 'dt': min(times) - w.now})
                    for nm in [S.TIMER_NAMES.get(getattr(c.func, '__name__', None)) for c in p.sim.world.due()]:
                        if nm and p.sim.enabled({'k': 'fire', 't': nm}):
                            p.step({'k': 'fire', 't': nm})
                if stop_first:
                    p.step({'k': 'stop'})
                for c in list(p.sim.world.connectors):
                    if p.sim.enabled({'k': 'connok', 'c': c.id}):
                        p.step({'k': 'connok', 'c': c.id})
                        if p.sim.enabled({'k': 'chunk', 'c': c.id}):
                            p.step({'k': 'chunk', 'c': c.id, 'hex': pool['open_ok'].hex()})
                        if p.sim.enabled({'k': 'chunk', 'c': c.id}):
                            p.step({'k': 'chunk', 'c': c.id, 'hex': SG.KEEPALIVE.hex()})
                if not stop_first:
                    p.step({'k': 'stop'})
                settle(p)
                for _ in range(4):
                    w = p.sim.world
                    due = [S.TIMER_NAMES.get(getattr(c.func, '__name__', None)) for c in w.due()]
                    due = [x for x in due if x]
                    if due:
                        p.step({'k': 'fire', 't': due[0]})
                        continue
                    times = [c.time for c in w.calls if c.time > w.now]
                    if not times:
                        break
                    p.step({'k': 'advance', 'dt': min(times) - w.now})
                p.step({'k': 'start'})
                # ... and the restarted peering meets a failure: the attempt is refused (first variant) or the session it brings
                # up is lost (second) - automatic recovery must be in force again
                pend = [c.id for c in p.sim.world.connectors if c.state == 'connecting']
                if pend:
                    if stop_first:
                        p.step({'k': 'connfail', 'c': pend[-1], 'why': 'refused'})
                    else:
                        p.step({'k': 'connok', 'c': pend[-1]})
                        for lab in ('open_ok', 'keepalive'):
                            if p.sim.enabled({'k': 'chunk', 'c': pend[-1]}):
                                p.step({'k': 'chunk', 'c': pend[-1], 'hex': pool[lab].hex()})
                        if p.sim.enabled({'k': 'lost', 'c': pend[-1]}):
                            p.step({'k': 'lost', 'c': pend[-1]})
                res.stats.case(('slow-peer', jdump(conf), nretry, stop_first), sample=None)
                res.stats.hit('slow_peer')


def late_loss(driver, res, r, tier):
    """The reactor reports the loss of an OLD connection late: the agent has closed connection 0 (operator stop, or a Cease
    from the peer), a new attempt is already in flight (operator start, or the idle-hold restart) when connectionLost for
    connection 0 is delivered; then the operator stops the peer, and only then the attempt in flight is answered.  Lockstep
    with the model; the Monitor judges C13 (nothing is sent or connected after the stop) and C12 on every step."""
    for conf in ({}, {'idle_hold_time': 0, 'connect_retry_time': 8}, {'hold_time': 9, 'connect_retry_time': 45, 'idle_hold_time': 5}):
        full = dict(S.DEFAULT_CFG); full.update(conf)
        pool = dict(SG.message_pool(full['remote_as']))
        for ending in ('stop+start', 'cease+idlehold', 'cease+start'):
            for second_stop in (True, False):
                p = Pair(conf, driver, res)
                for ev in ({'k': 'boot'}, {'k': 'connok', 'c': 0}, {'k': 'chunk', 'c': 0, 'hex': pool['open_ok'].hex()},
                           {'k': 'chunk', 'c': 0, 'hex': SG.KEEPALIVE.hex()}):
                    p.step(ev)
                if ending == 'stop+start':
                    p.step({'k': 'stop'})
                    p.step({'k': 'start'})
                else:
                    p.step({'k': 'chunk', 'c': 0, 'hex': pool['notif_cease'].hex()})
                    if ending == 'cease+start':
                        p.step({'k': 'start'})
                    else:
                        for _ in range(4):
                            w = p.sim.world
                            if any(c.state == 'connecting' for c in w.connectors):
                                break
                            due = [S.TIMER_NAMES.get(getattr(c.func, '__name__', None)) for c in w.due()]
                            due = [x for x in due if x]
                            if due:
                                p.step({'k': 'fire', 't': due[0]})
                                continue
                            times = [c.time for c in w.calls if c.time > w.now]
                            if not times:
                                break
                            p.step({'k': 'advance', 'dt': min(times) - w.now})
                # the late connectionLost of connection 0
                if p.sim.enabled({'k': 'lost', 'c': 0}):
                    p.step({'k': 'lost', 'c': 0})
                if second_stop:
                    p.step({'k': 'stop'})
                for c in list(p.sim.world.connectors)[1:]:
                    if p.sim.enabled({'k': 'connok', 'c': c.id}):
                        p.step({'k': 'connok', 'c': c.id})
                        for lab in ('open_ok', 'keepalive'):
                            if p.sim.enabled({'k': 'chunk', 'c': c.id}):
                                p.step({'k': 'chunk', 'c': c.id, 'hex': pool[lab].hex()})
                settle(p)
                for _ in range(3):
                    w = p.sim.world
                    due = [S.TIMER_NAMES.get(getattr(c.func, '__name__', None)) for c in w.due()]
                    due = [x for x in due if x]
                    if due:
                        p.step({'k': 'fire', 't': due[0]})
                        continue
                    times = [c.time for c in w.calls if c.time > w.now]
                    if not times:
                        break
                    p.step({'k': 'advance', 'dt': min(times) - w.now})
                res.stats.case(('late-loss', jdump(conf), ending, second_stop), sample=None)
                res.stats.hit('late_loss')


def two_sessions(driver, res, r, tier):
    """Two consecutive sessions whose peer OPENs differ (with / without capabilities, different hold times), each followed by
    the AS-width probes and an ordinary UPDATE: what the first session negotiated or received must not show in the second
    (C05), in either order.  Lockstep with the model; the oracles are the Monitor's."""
    for conf in CONFIGS:
        full = dict(S.DEFAULT_CFG); full.update(conf)
        pool = dict(SG.message_pool(full['remote_as']))
        opens = ['open_ok', 'open_nocaps', 'open_hold3', 'open_hold0', 'open_addpath_ipv4']
        probes = ['update_aspath4', 'update_aspath2', 'update_as4path_first', 'update_aggregator4', 'update_aggregator2', 'update_ok']
        pairs = [(a, b) for a in opens for b in opens if a != b]
        if tier == 'quick':
            pairs = [('open_ok', 'open_nocaps'), ('open_nocaps', 'open_ok'), ('open_ok', 'open_hold3'), ('open_ok', 'open_addpath_ipv4')] + r.sample(pairs, 2)
        for a, b in pairs:
            p = Pair(conf, driver, res)
            p.step({'k': 'boot'})
            cid = 0
            # (a third session: what the second one received or negotiated - a changed peer identifier, say - can only show
            # in the OPEN of the one after it)
            for n, which in enumerate((a, b, a)):
                if not p.sim.enabled({'k': 'connok', 'c': cid}):
                    break
                p.step({'k': 'connok', 'c': cid})
                ob = pool[which]
                if n == 1 and r.random() < 0.6:
                    # the peer comes back with another BGP identifier (it was renumbered / it is another router behind the
                    # same address): acceptance does not depend on what an earlier session saw
                    ob = ob[:19 + 5] + bytes([10, 0, 9, 9]) + ob[19 + 9:]
                p.step({'k': 'chunk', 'c': cid, 'hex': ob.hex()})
                if not p.sim.enabled({'k': 'chunk', 'c': cid}):
                    break
                p.step({'k': 'chunk', 'c': cid, 'hex': SG.KEEPALIVE.hex()})
                for pr in probes:
                    if p.last['state'] == 'ESTABLISHED' and p.sim.enabled({'k': 'chunk', 'c': cid}):
                        p.step({'k': 'chunk', 'c': cid, 'hex': pool[pr].hex()})
                if not p.sim.enabled({'k': 'lost', 'c': cid}):
                    break
                if p.last['state'] == 'IDLE' and p.sim.world.connectors[cid].state == 'connected':
                    # the agent says Idle but has not closed the connection: the peer has no reason to close it either, time passes
                    for _ in range(3):
                        w = p.sim.world
                        due = [S.TIMER_NAMES.get(getattr(c.func, '__name__', None)) for c in w.due()]
                        due = [d for d in due if d]
                        if due:
                            p.step({'k': 'fire', 't': due[0]})
                            continue
                        times = [c.time for c in w.calls if c.time > w.now]
                        if not times:
                            break
                        p.step({'k': 'advance', 'dt': min(times) - w.now})
                    if not p.sim.enabled({'k': 'lost', 'c': cid}):
                        break
                p.step({'k': 'lost', 'c': cid})
                # wait for the idle-hold timer (firing whatever else becomes due on the way), then the next attempt is pending
                for _ in range(12):
                    w = p.sim.world
                    if any(c.state == 'connecting' for c in w.connectors):
                        break
                    due = [S.TIMER_NAMES.get(getattr(c.func, '__name__', None)) for c in w.due()]
                    due = [d for d in due if d]
                    if due:
                        p.step({'k': 'fire', 't': due[0]})
                        continue
                    times = [c.time for c in w.calls if c.time > w.now]
                    if not times:
                        break
                    p.step({'k': 'advance', 'dt': min(times) - w.now})
                cid = len(p.sim.world.connectors) - 1
            settle(p)
            res.stats.case(('two-sessions', jdump(conf), a, b), sample=None)
            res.stats.hit('two_sessions')


def octet_tables(driver, res, r, tier):
    """Octets of a message that index a table in the code, EXHAUSTIVELY, in each session state: every message type code
    (with an empty and a 4-octet body) and every NOTIFICATION (error code, sub-code) the constants know plus codes they do
    not.  Lockstep with the model; the RFC oracle of the Monitor judges the reaction (a NOTIFICATION ends the session, an
    unknown type is answered (1,3), ...).  A constant table with a hole used to make the agent drop a NOTIFICATION."""
    conf = CONFIGS[0]
    full = dict(S.DEFAULT_CFG); full.update(conf)
    pool = dict(SG.message_pool(full['remote_as']))
    msgs = []
    for code in list(range(0, 10)) + [255]:
        for sub in list(range(0, 13)) + [255]:
            msgs.append(('notif_%d_%d' % (code, sub), SG.frame(3, bytes([code, sub]))))
    types = range(256) if tier != 'quick' else list(range(0, 8)) + [127, 128, 129, 254, 255]
    for ty in types:
        msgs.append(('type_%d_empty' % ty, SG.frame(ty, b'')))
        msgs.append(('type_%d_4' % ty, SG.frame(ty, b'\x00\x01\x00\x01')))
    prefixes = {'OPENSENT': [], 'OPENCONFIRM': ['open_ok'], 'ESTABLISHED': ['open_ok', 'keepalive']}
    for st, pre in sorted(prefixes.items()):
        for label, b in msgs:
            p = Pair(conf, driver, res)
            p.step({'k': 'boot'})
            p.step({'k': 'connok', 'c': 0})
            for l in pre:
                p.step({'k': 'chunk', 'c': 0, 'hex': pool[l].hex()})
            if p.last['state'] != st or not p.sim.enabled({'k': 'chunk', 'c': 0}):
                continue
            p.step({'k': 'chunk', 'c': 0, 'hex': b.hex()})
            settle(p)
            res.stats.case(('octets', st, label), sample=None)
            res.stats.hit('octet_tables_' + st)


class _Boom(Exception):
    pass


def handler_faults(res, r, tier):
    """C18 and C12 only, implementation only: the application handler raises inside one of its callbacks (a collector that is
    down, a full disk ...).  yabgp catches that; whatever it then does with the session, the counters must still equal what
    was written to / received from the connection (C18), and it must not end up with two connections or attempts, or leave a
    connection open and unreferenced (C12: bookkeeping of connections "whatever happens").  The model has no faulty handler,
    so there is no lockstep here, and the state-machine and timer properties are not judged on these runs (Appendix C)."""
    methods = ['send_open', 'open_received', 'keepalive_received', 'update_received', 'on_update_error', 'route_refresh_received',
               'notification_received', 'on_established', 'on_connection_lost', 'on_connection_failed']
    script = [('connok', None), ('chunk', 'open_ok'), ('chunk', 'keepalive'), ('chunk', 'update_ok'), ('chunk', 'update_bad_origin'),
              ('chunk', 'rr'), ('chunk', 'keepalive'), ('chunk', 'notif_cease')]
    # the second configuration retries before the TCP connect timeout: the first attempt is still pending (the peer is slow to
    # answer) when the retry timer starts the next one, and the operator stops / starts while an attempt is in flight
    for conf, slow_peer in ((CONFIGS[0], False), ({'connect_retry_time': 8, 'idle_hold_time': 3}, True)):
      full = dict(S.DEFAULT_CFG); full.update(conf)
      pool = dict(SG.message_pool(full['remote_as']))
      for meth in methods:
        for nth in (1, 2):
            sim = S.Sim(conf)
            h = sim.handler
            if not hasattr(h, meth):
                res.stats.hit('handler_fault_skipped')
                continue
            orig = getattr(h, meth)
            count = {'n': 0}

            def faulty(*a, _orig=orig, _count=count, **kw):
                _count['n'] += 1
                if _count['n'] == nth:
                    raise _Boom('handler down')
                return _orig(*a, **kw)
            setattr(h, meth, faulty)
            mon = Monitor(res, dict(conf, application='a handler whose %s raises at call %d' % (meth, nth)), full)
            mon.only = {'C18', 'C12'}
            trace = []

            def do(ev):
                if not sim.enabled(ev):
                    return False
                o = sim.step(ev)
                trace.append(ev)
                mon.step(ev, o, sim)
                return True
            do({'k': 'boot'})
            if slow_peer:
                # nobody answers the first attempt: the retry timer fires (twice), then the operator stops and starts
                for _ in range(2):
                    times = [c.time for c in sim.world.calls if c.time > sim.world.now]
                    if times:
                        do({'k': 'advance', 'dt': min(times) - sim.world.now})
                    for nm in [S.TIMER_NAMES.get(getattr(c.func, '__name__', None)) for c in sim.world.due()]:
                        if nm:
                            do({'k': 'fire', 't': nm})
                do({'k': 'stop'})
                do({'k': 'start'})
                # ... and now every attempt that is still believed pending by the reactor is answered, oldest first
                for c in list(sim.world.connectors)[:-1]:
                    do({'k': 'connok', 'c': c.id})
            for rounds in range(2):
                cid = len(sim.world.connectors) - 1
                for kind, label in script:
                    if kind == 'connok':
                        do({'k': 'connok', 'c': cid})
                    else:
                        do({'k': 'chunk', 'c': cid, 'hex': pool[label].hex()})
                # the reactor completes the closes the agent asked for; a connection the agent did NOT close stays open on
                # the peer's side too (the peer has no reason to drop it) - in the first round
                if sim.world.connectors[cid].state == 'closing' or rounds == 1:
                    if sim.enabled({'k': 'lost', 'c': cid}):
                        do({'k': 'lost', 'c': cid})
                for _ in range(10):
                    w = sim.world
                    if any(c.state == 'connecting' for c in w.connectors):
                        break
                    due = [S.TIMER_NAMES.get(getattr(c.func, '__name__', None)) for c in w.due()]
                    due = [d for d in due if d]
                    if due:
                        do({'k': 'fire', 't': due[0]})
                        continue
                    times = [c.time for c in w.calls if c.time > w.now]
                    if not times:
                        break
                    do({'k': 'advance', 'dt': min(times) - w.now})
            res.stats.case(('handler-fault', meth, nth, slow_peer), sample={'handler_fault': meth, 'nth': nth, 'fired': count['n'] >= nth})
            res.stats.hit('handler_fault_' + ('fired' if count['n'] >= nth else 'not_reached'))
    conf = CONFIGS[0]
    full = dict(S.DEFAULT_CFG); full.update(conf)
    pool = dict(SG.message_pool(full['remote_as']))
    # the application asks the agent to send through the handler's internal queue (BaseHandler.inter_mq): the requests are
    # carried out when the next KEEPALIVE arrives - UPDATEs and a NOTIFICATION; the counters must follow what is written
    for items in ([('update', 1)], [('update', 3)], [('update', 2), ('notification', 1)]):
        sim = S.Sim(conf)
        mon = Monitor(res, conf, full)
        mon.only = {'C18'}

        def do(ev, sim=sim, mon=mon):
            if not sim.enabled(ev):
                return False
            o = sim.step(ev)
            mon.step(ev, o, sim)
            return True
        do({'k': 'boot'})
        do({'k': 'connok', 'c': 0})
        do({'k': 'chunk', 'c': 0, 'hex': pool['open_ok'].hex()})
        do({'k': 'chunk', 'c': 0, 'hex': pool['keepalive'].hex()})
        for kind, n in items:
            for i in range(n):
                if kind == 'update':
                    sim.handler.inter_mq.put({'type': 'update', 'msg': {
                        'attr': {1: 0, 2: [], 3: '10.0.0.1'}, 'nlri': ['10.%d.0.0/16' % i], 'withdraw': []}})
                else:
                    sim.handler.inter_mq.put({'type': 'notification', 'msg': {'error': 6, 'sub_error': 4, 'data': b''}})
        do({'k': 'chunk', 'c': 0, 'hex': pool['keepalive'].hex()})
        do({'k': 'chunk', 'c': 0, 'hex': pool['keepalive'].hex()})
        res.stats.case(('handler-queue', jdump(items)), sample=None)
        res.stats.hit('handler_queue')


def shipped_handler(res, r, tier):
    """Implementation only: sessions whose application is the handler yabgp ships (DefaultHandler, message logging to disk
    on, KEEPALIVEs logged, files rotating every few records) instead of the harness's recording handler - the agent as it
    is deployed.  Peers named by an IPv4 address and by an IPv6 address written in upper case.  A long run of UPDATEs and
    KEEPALIVEs arriving just inside the hold time, the agent's timers fired as they come due: the Monitor's oracles (state
    machine, timers, counters) must hold exactly as with any other application."""
    import shutil as _sh
    import impl_msglog as IM
    root = os.path.join(IM.SCRATCH_ROOT, 'scratch_shipped_%d' % os.getpid())
    CONF = IM.CONF
    for peer_addr in ('10.0.0.2', '2001:DB8::2'):
        for hold in (9, 30):
            _sh.rmtree(root, ignore_errors=True)
            os.makedirs(root)
            for k, v in (('write_disk', True), ('write_dir', root), ('write_msg_max_size', 600), ('write_keepalive', True)):
                CONF.set_override(k, v, group='message')
            try:
                conf = {'hold_time': hold, 'remote_addr': peer_addr,
                        'application': 'the shipped DefaultHandler, disk logging on, rotation every 600 octets'}
                full = dict(S.DEFAULT_CFG); full.update(conf)
                pool = dict(SG.message_pool(full['remote_as']))
                sim = S.Sim(conf)
                real = IM.dh.DefaultHandler()
                real.init()
                rec = sim.handler
                for name in ('on_update_error', 'update_received', 'keepalive_received', 'open_received', 'send_open',
                             'route_refresh_received', 'notification_received', 'on_connection_lost', 'on_connection_failed',
                             'on_established'):
                    if not hasattr(rec, name) or not hasattr(real, name):
                        continue

                    def both(*a, _r=getattr(rec, name), _d=getattr(real, name), **kw):
                        try:
                            _r(*a, **kw)
                        except Exception:   # noqa
                            pass
                        return _d(*a, **kw)
                    setattr(rec, name, both)
                mon = Monitor(res, conf, full)
                mon.only = {'C01', 'C03', 'C10', 'C18'}

                def do(ev, sim=sim, mon=mon):
                    if not sim.enabled(ev):
                        return None
                    o = sim.step(ev)
                    mon.step(ev, o, sim)
                    return o

                def drain(sim=sim, do=do):
                    for _ in range(6):
                        due = [S.TIMER_NAMES.get(getattr(c.func, '__name__', None)) for c in sim.world.due()]
                        due = [d for d in due if d]
                        if not due:
                            return
                        do({'k': 'fire', 't': due[0]})
                do({'k': 'boot'})
                do({'k': 'connok', 'c': 0})
                do({'k': 'chunk', 'c': 0, 'hex': pool['open_ok'].hex()})
                do({'k': 'chunk', 'c': 0, 'hex': pool['keepalive'].hex()})
                H = min(hold, 90) * 3       # ticks
                arrivals = ['update_ok', 'update_withdraw', 'update_ok', 'update_aspath4', 'keepalive', 'update_ok', 'update_eor',
                            'update_ok', 'update_withdraw', 'update_bad_origin', 'update_ok', 'update_ok', 'update_withdraw',
                            'update_ok', 'keepalive', 'update_ok', 'update_ok', 'update_withdraw', 'update_ok', 'update_ok']
                for lab in arrivals:
                    # the next message arrives just inside the hold time; timers that come due on the way are fired
                    target = sim.world.now + H - 1
                    for _ in range(12):
                        drain()
                        times = [c.time for c in sim.world.calls if sim.world.now < c.time <= target]
                        nxt = min(times) if times else target
                        if nxt <= sim.world.now:
                            break
                        if do({'k': 'advance', 'dt': nxt - sim.world.now}) is None:
                            break
                    drain()
                    if do({'k': 'chunk', 'c': 0, 'hex': pool[lab].hex()}) is None:
                        break
                res.stats.case(('shipped-handler', peer_addr, hold), sample=None)
                res.stats.hit('shipped_handler_sessions')
                nfiles = 0
                md = os.path.join(root, peer_addr.lower(), 'msg')
                if os.path.isdir(md):
                    nfiles = len(os.listdir(md))
                res.stats.hit('shipped_handler_log_files', nfiles)
            finally:
                for k in ('write_disk', 'write_dir', 'write_msg_max_size', 'write_keepalive'):
                    CONF.clear_override(k, group='message')
                _sh.rmtree(root, ignore_errors=True)


def replay_witness(wit, driver):
    """replays the recorded history of a known finding on the implementation (and the model); returns the failures"""
    res = SuiteResult('session-witness')
    p = Pair(wit['cfg'], driver, res)
    for ev in wit['events']:
        if not p.sim.enabled(ev):
            res.notes.append('witness event not enabled: %r' % (ev,))
            break
        p.step(ev)
    return res
