"""Suite `mpnlri` (C07 part a, C15 for the NLRI list decoders): IPv6 unicast, IPv4/IPv6 labeled unicast, VPNv4/VPNv6 and
the MP_REACH_NLRI / MP_UNREACH_NLRI wrappers.

  * correspondence  Lean model (Yabgp/Model/Mp/*.lean through "mp.*" ops) vs the real MpReachNLRI / MpUnReachNLRI /
                    IPv6Unicast / IPv4|IPv6LabeledUnicast / IPv4|IPv6MPLSVPN parse and construct, on in-range values,
                    out-of-range values, truncated / mutated / hostile byte strings, add-path and withdraw modes;
  * C07 oracle      decode(construct(v)) == v on the real code over the value space of the property text (every prefix
                    length x label set x RD types at field boundaries, next hops with/without link-local, 1..n routes);
  * C15 oracle      decode(a || b) == decode(a) + decode(b) on the real code, pools with every element width.

Failure keys of the recorded known findings (everything else is a plain failure):
  KF-ipv6-unicast-two-default-routes   KF-labeled-last-label-zero   KF-labeled-unreach-not-decoded
"""
import json
import struct

from lib.base import SuiteResult, rng_for, jdump
from lib import astscan
from gen import values as G
import impl_mp as I

P32 = 1 << 32
P128 = 1 << 128
LABELS = [0, 1, 3, 15, 16, 2 ** 20 - 1]
V4_ADDRS = G.ADDRS
V6_ADDRS = [0, 1, 0xffffffff, P32, 1 << 64, 1 << 127, P128 - 1, 0x20010db8 << 96, (0xfe80 << 112) | 1,
            0xffff01020304, (0x20010db8 << 96) | 0xff, 0x00fe << 112, int('a5' * 16, 16), int('5a' * 16, 16),
            0x01020304, (0x20014837 << 96) | (0x1632 << 80) | 2]
RDS = [['as', 0, 0], ['as', 1, 1], ['as', 100, 100], ['as', 65535, P32 - 1], ['as', 65535, 0], ['as', 0, P32 - 1],
       ['as', 65536, 0], ['as', 65536, 65535], ['as', P32 - 1, 65535], ['as', P32 - 1, 0],
       ['ip', 0, 0], ['ip', P32 - 1, 65535], ['ip', 0x01010101, 1], ['ip', 0xac110003, 2]]
NH_RDS = [['as', 0, 0], ['as', 1, 2], ['as', 65535, P32 - 1]]
FAMS = ('u6', 'lu4', 'lu6', 'vpn4', 'vpn6')
AFV = {'u6': 6, 'lu4': 4, 'lu6': 6, 'vpn4': 4, 'vpn6': 6}
KF_ZERO = 'KF-ipv6-unicast-two-default-routes'
KF_LABEL0 = 'KF-labeled-last-label-zero'
KF_LU_UNREACH = 'KF-labeled-unreach-not-decoded'


# ------------------------------------------------------------------------------------------------ values

def octets(l):
    return (l + 7) // 8


def mk_pfx(af, addr, l, hostbit=False):
    """octet form: no bits beyond the last octet the mask covers (network form unless `hostbit`)"""
    width = 32 if af == 4 else 128
    a = addr & ((1 << width) - 1)
    a = (a >> (width - l)) << (width - l) if l else 0
    if hostbit and l % 8:
        a |= 1 << (width - 8 * octets(l))
    return [af, a, l]


def pfx_ok(p, af):
    v, a, l = p
    width = 32 if af == 4 else 128
    return v == af and 0 <= l <= width and 0 <= a < (1 << width) and a % (1 << (width - 8 * octets(l))) == 0


def ip_ok(a):
    return isinstance(a, list) and ((a[0] == 4 and 0 <= a[1] < P32) or (a[0] == 6 and 0 <= a[1] < P128))


def rd_ok(rd):
    if rd[0] == 'ip':
        return 0 <= rd[1] < P32 and 0 <= rd[2] < 65536
    if rd[0] == 'as':
        return (0 <= rd[1] <= 65535 and 0 <= rd[2] < P32) or (65535 < rd[1] < P32 and 0 <= rd[2] < 65536)
    return False


def labels_ok(ls):
    return len(ls) >= 1 and all(0 <= x < 2 ** 20 for x in ls)


def u6_ok(r):
    return isinstance(r, list) and pfx_ok(r, 6)


def lu_ok(r, af):
    return ('path_id' not in r and labels_ok(r['label']) and pfx_ok(r['prefix'], af) and
            24 * len(r['label']) + r['prefix'][2] <= 255)


def vpn_ok(r, af, wd):
    if 'path_id' in r or not rd_ok(r['rd']) or not pfx_ok(r['prefix'], af):
        return False
    if wd:
        if r['label'] != [524288]:
            return False
    elif not labels_ok(r['label']):
        return False
    return 8 * (3 * len(r['label']) + 8) + r['prefix'][2] <= 255


def u6_unsafe(rs):
    """the route list ends with two default routes (the excluded class of C07_ipv6_unicast_*; U6Safe_nil_iff)"""
    return len(rs) >= 2 and rs[-1][2] == 0 and rs[-2][2] == 0


def in_space_reach(v):
    """the value space of the property text (ReachOk of Props/C07a.lean, before the known-finding exclusions)"""
    afi, safi = v['afi_safi']
    af = 4 if afi == 1 else 6
    rs = v['nlri']
    if (afi, safi) == (2, 1):
        return (ip_ok(v['nexthop']) and v['nexthop'][0] == 6 and
                ('linklocal_nexthop' not in v or (ip_ok(v['linklocal_nexthop']) and v['linklocal_nexthop'][0] == 6)) and
                all(u6_ok(r) for r in rs))
    if safi == 4:
        return v['nexthop'] != '' and ip_ok(v['nexthop']) and len(rs) >= 1 and all(lu_ok(r, af) for r in rs)
    if safi == 128:
        nh = v['nexthop']
        return (nh['rd'][0] == 'as' and 0 <= nh['rd'][1] < 65536 and 0 <= nh['rd'][2] < P32 and ip_ok(nh['str']) and
                all(vpn_ok(r, af, False) for r in rs))
    return False


def in_space_unreach(v):
    afi, safi = v['afi_safi']
    af = 4 if afi == 1 else 6
    rs = v['withdraw']
    if not rs:
        return False
    if (afi, safi) == (2, 1):
        return all(u6_ok(r) for r in rs)
    if safi == 4:
        return all(lu_ok(r, af) for r in rs)
    if safi == 128:
        return all(vpn_ok(r, af, True) for r in rs)
    return False


def kf_class(attr, v):
    """the known-finding class a value of the property's value space belongs to, if any"""
    afi, safi = v['afi_safi']
    rs = v['nlri'] if attr == 14 else v['withdraw']
    if safi == 4 and attr == 15:
        return KF_LU_UNREACH
    if safi == 4 and any(r['label'][-1] == 0 for r in rs):
        return KF_LABEL0
    if (afi, safi) == (2, 1) and u6_unsafe(rs):
        return KF_ZERO
    return None


def wrap(fam, routes, r=None, idx=0, unreach=False):
    """an attribute dictionary around a list of routes, next hop drawn from the pools"""
    afi, safi = I.FAM_AFI_SAFI[fam]
    if unreach:
        return {'afi_safi': [afi, safi], 'withdraw': routes}
    v = {'afi_safi': [afi, safi], 'nlri': routes}
    if fam == 'u6':
        v['nexthop'] = [6, V6_ADDRS[idx % len(V6_ADDRS)]]
        if idx % 3 == 1:
            v['linklocal_nexthop'] = [6, (0xfe80 << 112) | (idx & 0xffff)]
        elif idx % 7 == 3:
            v['linklocal_nexthop'] = [6, V6_ADDRS[(idx // 7) % len(V6_ADDRS)]]
    elif safi == 4:
        v['nexthop'] = [4, V4_ADDRS[idx % len(V4_ADDRS)]] if (afi == 1) != (idx % 5 == 4) else \
            [6, V6_ADDRS[idx % len(V6_ADDRS)]]
    else:
        a = [4, V4_ADDRS[idx % len(V4_ADDRS)]] if (afi == 1) != (idx % 5 == 4) else [6, V6_ADDRS[idx % len(V6_ADDRS)]]
        v['nexthop'] = {'rd': NH_RDS[idx % len(NH_RDS)], 'str': a}
    return v


def exhaustive_routes(fam, wd=False):
    """every prefix length of the family x the label set x RD types at field boundaries (single routes)"""
    af = AFV[fam]
    width = 32 if af == 4 else 128
    addrs = V4_ADDRS if af == 4 else V6_ADDRS
    out = []
    i = 0
    for l in range(width + 1):
        if fam == 'u6':
            for k in range(4):
                out.append(mk_pfx(6, addrs[(l + 5 * k) % len(addrs)], l, hostbit=(k == 3)))
            continue
        for li, lab in enumerate(LABELS):
            for depth in (1, 2):
                i += 1
                p = mk_pfx(af, addrs[i % len(addrs)], l, hostbit=(i % 11 == 0))
                stack = [lab] if depth == 1 else [LABELS[(li + l) % len(LABELS)], lab]
                if fam.startswith('lu'):
                    if 24 * len(stack) + l <= 255:
                        out.append({'label': stack, 'prefix': p})
                else:
                    if wd:
                        stack = [524288]
                    if 8 * (3 * len(stack) + 8) + l <= 255:
                        out.append({'label': stack, 'rd': RDS[i % len(RDS)], 'prefix': p})
        if fam.startswith('vpn'):
            for rd in RDS:
                i += 1
                out.append({'label': [524288] if wd else [LABELS[i % len(LABELS)]], 'rd': rd,
                            'prefix': mk_pfx(af, addrs[i % len(addrs)], l)})
    return out


def rnd_route(r, fam, wd=False, valid=True):
    af = AFV[fam]
    width = 32 if af == 4 else 128
    addrs = V4_ADDRS if af == 4 else V6_ADDRS
    l = r.choice([0, 1, 7, 8, 9, width - 1, width, r.randint(0, width)])
    a = r.choice(addrs + [r.getrandbits(width)])
    p = mk_pfx(af, a, l, hostbit=r.random() < 0.15)
    if fam == 'u6':
        return p
    lab = [r.choice(LABELS + [r.getrandbits(20)]) for _ in range(r.choice([1, 1, 1, 2, 3]))]
    if fam.startswith('lu'):
        while 24 * len(lab) + l > 255:
            lab.pop()
        return {'label': lab, 'prefix': p}
    if wd:
        lab = [524288]
    while 8 * (3 * len(lab) + 8) + l > 255:
        lab.pop()
    rd = r.choice(RDS) if r.random() < 0.6 else r.choice([
        ['as', r.getrandbits(16), r.getrandbits(32)], ['as', 65536 + r.getrandbits(31), r.getrandbits(16)],
        ['ip', r.getrandbits(32), r.getrandbits(16)]])
    return {'label': lab, 'rd': rd, 'prefix': p}


def spoil(r, fam, route):
    """an out-of-range variant of a route (the constructors must reject it or encode it the way the model says)"""
    route = json.loads(json.dumps(route))
    k = r.randrange(12)
    p = route if fam == 'u6' else route['prefix']
    width = 32 if AFV[fam] == 4 else 128
    if k == 0:
        p[2] = r.choice([width + 1, 129, 200, 255, 256, -1, -8])
    elif k == 1:
        p[1] |= r.getrandbits(width)                     # host bits everywhere
    elif k == 2:
        p[0] = 10 - p[0]                                 # address text of the other family
        p[1] &= (P32 - 1) if p[0] == 4 else (P128 - 1)
    elif k == 3 and fam != 'u6':
        route['label'] = r.choice([[], [2 ** 20], [2 ** 24 - 1], [2 ** 28 - 1], [2 ** 28], [2 ** 32], [0], [5, 0],
                                   [2 ** 28, 5], [1] * 9, [1] * 11])
    elif k == 4 and fam.startswith('vpn'):
        route['rd'] = r.choice([['as', 65535, P32], ['as', 65536, 65536], ['as', P32, 1], ['ip', 1, 65536],
                                ['as', 0, 2 ** 40]])
    elif k == 5:
        if fam == 'u6':
            route = {'path_id': r.getrandbits(32), 'prefix': p}
        else:
            route['path_id'] = r.getrandbits(32)
    elif k == 6 and fam != 'u6':
        route['label'] = [r.getrandbits(20) for _ in range(r.choice([4, 6, 8, 10]))]
    return route


# ------------------------------------------------------------------------------------------------ the C07 oracle

def expected_unreach(v):
    return v


def oracle(res, attr, v):
    """decode(construct(v)) == v on the real code, for a value of the property's value space"""
    ic = I.mp_construct(attr, v)
    kfc = kf_class(attr, v)
    res.stats.hit('oracle_%d_%d_%d' % (attr, v['afi_safi'][0], v['afi_safi'][1]))
    if 'hex' not in ic:
        if too_long(attr, v):
            res.stats.hit('oracle_too_long')
            return None
        res.fail('C07', 'construct does not return an attribute for an in-range value (%s)' % sorted(ic)[0],
                 {'attr': attr, 'value': v, 'impl': ic}, key=kfc)
        return None
    wire = bytes.fromhex(ic['hex'])
    if wire[:2] != bytes([0x90, attr]) or struct.unpack('!H', wire[2:4])[0] != len(wire) - 4:
        res.fail('C07', 'constructed attribute has a wrong header', {'attr': attr, 'value': v, 'hex': wire.hex()})
        return wire
    got = I.mp_parse(attr, wire[4:])
    if got != {'ok': v}:
        res.fail('C07', 'decode(construct(v)) != v', {'attr': attr, 'value': v, 'hex': wire.hex(), 'decoded': got},
                 key=kfc)
    elif kfc is None:
        res.stats.hit('roundtrip_ok')
    return wire


def too_long(attr, v):
    rs = v['nlri'] if attr == 14 else v['withdraw']
    return len(rs) > 1500


# ------------------------------------------------------------------------------------------------ case lists

def value_cases(r, tier):
    """(attr, value, in_space) triples: exhaustive boundary values, lists of 1..n, random, spoiled"""
    n_rand = 1200 if tier == 'quick' else 40000
    cases = []
    idx = 0
    for fam in FAMS:
        singles = exhaustive_routes(fam)
        # every single route alone, then the same routes in lists of 2..7
        for rt in singles:
            idx += 1
            cases.append((14, wrap(fam, [rt], r, idx)))
        i = 0
        while i < len(singles):
            k = 2 + (i % 6)
            idx += 1
            cases.append((14, wrap(fam, singles[i:i + k], r, idx)))
            i += k
        if fam in ('u6', 'vpn4', 'vpn6', 'lu4', 'lu6'):
            wsingles = exhaustive_routes(fam, wd=True) if fam.startswith('vpn') else singles
            step = 1 if tier != 'quick' else 3
            for j in range(0, len(wsingles), step):
                cases.append((15, wrap(fam, [wsingles[j]], unreach=True)))
            i = 0
            while i < len(wsingles):
                k = 2 + (i % 5)
                cases.append((15, wrap(fam, wsingles[i:i + k], unreach=True)))
                i += k
    # boundary cases of the wrappers
    for fam in FAMS:
        cases.append((14, wrap(fam, [], r, 1)))
        cases.append((15, wrap(fam, [], unreach=True)))
    d6 = [6, 0, 0]
    for rs in ([d6], [d6, d6], [d6, d6, d6], [mk_pfx(6, V6_ADDRS[7], 32), d6, d6], [d6, mk_pfx(6, V6_ADDRS[7], 32), d6],
               [d6, d6, mk_pfx(6, V6_ADDRS[7], 32)], [[6, 0, 8], [6, 0, 8]], [[6, 0, 8], d6], [d6, [6, 0, 8]]):
        cases.append((14, wrap('u6', rs, r, 2)))
        cases.append((15, wrap('u6', rs, unreach=True)))
    for fam in ('lu4', 'lu6'):
        v = wrap(fam, [rnd_route(r, fam)], r, 3)
        v['nexthop'] = ''
        cases.append((14, v))
        v = wrap(fam, [], r, 3)
        v['nexthop'] = ''
        cases.append((14, v))
    for fam in ('vpn4', 'vpn6'):
        for rd in (['ip', 0x01010101, 1], ['as', 65536, 1], ['as', 65535, P32], ['as', 1, P32 - 1]):
            v = wrap(fam, [rnd_route(r, fam)], r, 4)
            v['nexthop']['rd'] = rd
            cases.append((14, v))
    v = wrap('u6', [d6], r, 5)
    v['nexthop'] = [4, 0x01020304]                     # an IPv4 text where an IPv6 next hop is expected
    cases.append((14, v))
    v = wrap('u6', [d6], r, 5)
    v['linklocal_nexthop'] = [4, 0x01020304]
    cases.append((14, v))
    # long lists (2-octet attribute length, many loop iterations)
    for fam in FAMS:
        for n in (64, 300):
            cases.append((14, wrap(fam, [rnd_route(r, fam) for _ in range(n)], r, n)))
            cases.append((15, wrap(fam, [rnd_route(r, fam, wd=True) for _ in range(n)], unreach=True)))
    # random in-range and spoiled
    for i in range(n_rand):
        fam = r.choice(FAMS)
        unreach = r.random() < 0.3
        n = r.choice([1, 1, 2, 3, 5, 9])
        rs = [rnd_route(r, fam, wd=unreach) for _ in range(n)]
        if r.random() < 0.3:
            j = r.randrange(n)
            rs[j] = spoil(r, fam, rs[j])
        cases.append((15 if unreach else 14, wrap(fam, rs, r, i, unreach=unreach)))
    return cases


def parse_cases(r, tier, wires):
    """(attr, bytes, addpath): valid encodings, truncations, mutations, exhaustive small scopes, corpus"""
    cases = []
    n_mut = 2 if tier == 'quick' else 12
    small = [w for w in wires if len(w[1]) <= 48]
    r.shuffle(small)
    for attr, w in small[:120 if tier == 'quick' else 2000]:
        for k in range(len(w)):
            cases.append((attr, w[:k], False))
    sample = list(wires)
    r.shuffle(sample)
    for attr, w in sample[:1500 if tier == 'quick' else 20000]:
        for _ in range(n_mut):
            cases.append((attr, G.mutate(r, w), r.random() < 0.15))
        if r.random() < 0.2:
            cases.append((attr, w, True))                       # a valid encoding read in add-path mode
        if r.random() < 0.1:
            cases.append((29 - attr, w, False))                 # reach value given to the unreach decoder and v.v.
    # headers: every family the dispatch distinguishes x next hop lengths x what follows
    tails = [b'', b'\x00', b'\x00\x00', b'\x00\x00\x00', bytes(range(1, 30)), b'\xff' * 40, b'\x00' * 40,
             bytes([0x18, 0, 1, 1, 10]), bytes([0x70, 0, 1, 1, 0, 0, 0, 100, 0, 0, 0, 100, 10, 1, 1])]
    for afi in (0, 1, 2, 3, 25, 16388, 65535):
        for safi in (0, 1, 2, 4, 5, 70, 71, 73, 128, 129, 133, 255):
            for nhl in (0, 1, 3, 4, 5, 8, 9, 12, 13, 16, 17, 24, 25, 32, 33, 255):
                for t in (tails if (afi, safi) in I.MINE else tails[:2]):
                    cases.append((14, struct.pack('!HBB', afi, safi, nhl) + t, False))
            for t in tails:
                cases.append((15, struct.pack('!HB', afi, safi) + t, False))
    for n in range(0, 5):
        cases.append((14, b'\x00' * n, False))
        cases.append((15, b'\x00' * n, False))
    # corpus: byte literals of the repository's tests, as they are and without a 3/4-octet attribute header
    for b in astscan.harvest_byte_literals():
        for x in (b, b[3:], b[4:]):
            if 3 <= len(x) <= 400:
                cases.append((14, x, False))
                cases.append((15, x, False))
                cases.append((14, x, True))
    return cases


def nlri_cases(r, tier):
    """(fam, bytes, withdraw, addpath) for the NLRI classes themselves: every length octet x 0..k octets following"""
    cases = []
    pats = [b'', b'\x00', b'\x01', b'\x00\x00', b'\x00\x01\x01', b'\x00\x00\x00', b'\x80\x00\x00', b'\xff\xff\xff',
            bytes([0, 1, 1, 0, 0, 0, 100, 0, 0, 0, 100]), bytes([0, 1, 0, 0, 1, 1, 0, 1, 1, 2, 3, 4, 0, 5, 10, 1]),
            bytes(range(1, 20)), bytes(range(1, 40)), b'\x00' * 30, b'\xff' * 30,
            bytes([0, 1, 1, 0, 2, 0, 1, 0, 0, 0, 2]) + bytes(range(0x20, 0x30))]
    for fam in FAMS:
        for ln in range(256):
            for p in pats:
                if tier == 'quick' and ln > 136 and ln % 8 not in (0, 1, 7):
                    continue
                cases.append((fam, bytes([ln]) + p, False, False))
            cases.append((fam, bytes([ln]) + pats[10], fam.startswith('vpn'), False))
            cases.append((fam, b'\x00\x00\x00\x07' + bytes([ln]) + pats[11], False, True))
        for p in pats:
            cases.append((fam, p, False, False))
            cases.append((fam, p, False, True))
            cases.append((fam, p, True, False))
    n = 1500 if tier == 'quick' else 40000
    for _ in range(n):
        fam = r.choice(FAMS)
        wd = fam.startswith('vpn') and r.random() < 0.3
        rs = [rnd_route(r, fam, wd=wd) for _ in range(r.choice([1, 2, 3]))]
        c = I.nlri_construct(fam, rs, withdraw=wd)
        if 'hex' not in c:
            continue
        w = bytes.fromhex(c['hex'])
        ap = r.random() < 0.3
        if ap:
            w = b''.join([struct.pack('!I', r.choice(G.U32))]) + w if len(rs) == 1 else w
        cases.append((fam, w, wd, ap))
        cases.append((fam, G.mutate(r, w), wd, ap))
        if r.random() < 0.3:
            cases.append((fam, w[:r.randrange(len(w) + 1)], wd, ap))
    return cases


# ------------------------------------------------------------------------------------------------ run

def _skip(mo):
    return 'error' in mo


def run(seed, tier, driver):
    res = SuiteResult('mpnlri')
    r = rng_for(seed, 'mpnlri', tier)
    model, owned = I.model_driver(driver)
    res.notes.append('model through %s' % ('the shared native driver' if not owned else 'lake env lean --run MpMain.lean'))
    try:
        _run(res, r, tier, model)
    finally:
        if owned:
            model.close()
    return res


def _run(res, r, tier, model):
    # ---- construct correspondence + C07 oracle
    vcases = value_cases(r, tier)
    mres = model.batch([{'op': 'mp.construct', 'attr': a, 'value': v} for a, v in vcases])
    wires = []
    for (attr, v), mo in zip(vcases, mres):
        ic = I.mp_construct(attr, v)
        if _skip(mo) or 'unmodelled' in ic:
            res.stats.skipped += 1
            res.stats.hit('construct_skipped')
            continue
        rs = v['nlri'] if attr == 14 else v['withdraw']
        res.stats.case(('c', attr, jdump(v)), nontrivial=bool(rs),
                       sample={'construct': v, 'attr': attr, 'impl': ic} if len(rs) <= 2 else None)
        res.stats.hit('construct_%s' % sorted(ic)[0])
        if ic != mo:
            res.disagree('Mp%sNLRI.construct' % ('Reach' if attr == 14 else 'UnReach'), {'attr': attr, 'value': v}, ic, mo)
        if 'hex' in ic:
            wires.append((attr, bytes.fromhex(ic['hex'])[4:]))
        if (in_space_reach(v) if attr == 14 else in_space_unreach(v)):
            oracle(res, attr, v)
    res.stats.hit('wires', len(wires))

    # ---- parse correspondence
    pcases = parse_cases(r, tier, wires) + [(a, w, False) for a, w in wires]
    mres = model.batch([{'op': 'mp.parse', 'attr': a, 'addpath': ap, 'hex': b.hex()} for a, b, ap in pcases])
    for (attr, b, ap), mo in zip(pcases, mres):
        if _skip(mo):
            res.stats.skipped += 1
            continue
        if 'ok' in mo and 'other' in mo['ok']:
            res.stats.hit('parse_other_family')
            continue
        io = I.mp_parse(attr, b, ap)
        res.stats.case(('p', attr, b.hex(), ap), nontrivial=len(b) > 4,
                       sample={'parse': b.hex(), 'attr': attr, 'impl': io} if len(b) < 40 else None)
        res.stats.hit('parse_%s' % ('ok' if 'ok' in io else 'hang' if 'hang' in io else 'err_%s' % io.get('err')))
        if io != mo:
            res.disagree('Mp%sNLRI.parse' % ('Reach' if attr == 14 else 'UnReach'),
                         {'attr': attr, 'hex': b.hex(), 'addpath': ap}, io, mo)

    # ---- the NLRI classes themselves (add-path, withdraw, hostile length octets)
    ncases = nlri_cases(r, tier)
    mres = model.batch([{'op': 'mp.nlri.parse', 'fam': f, 'withdraw': wd, 'addpath': ap, 'hex': b.hex()}
                        for f, b, wd, ap in ncases])
    for (fam, b, wd, ap), mo in zip(ncases, mres):
        if _skip(mo):
            res.stats.skipped += 1
            continue
        io = I.nlri_parse(fam, b, withdraw=wd, addpath=ap)
        res.stats.case(('n', fam, b.hex(), wd, ap), nontrivial=len(b) > 1)
        res.stats.hit('nlri_%s_%s' % (fam, 'ok' if 'ok' in io else 'hang' if 'hang' in io else 'err'))
        if io != mo:
            res.disagree('%s.parse' % fam, {'fam': fam, 'hex': b.hex(), 'withdraw': wd, 'addpath': ap}, io, mo)
    # NLRI-level construct incl. withdraw flag and add-path entries
    ccases = []
    for _ in range(600 if tier == 'quick' else 10000):
        fam = r.choice(FAMS)
        wd = fam != 'u6' and r.random() < 0.3
        rs = [rnd_route(r, fam, wd=wd and fam.startswith('vpn')) for _ in range(r.choice([0, 1, 2, 4]))]
        if rs and r.random() < 0.4:
            j = r.randrange(len(rs))
            rs[j] = spoil(r, fam, rs[j])
        ccases.append((fam, rs, wd))
    mres = model.batch([{'op': 'mp.nlri.construct', 'fam': f, 'withdraw': wd, 'routes': rs} for f, rs, wd in ccases])
    for (fam, rs, wd), mo in zip(ccases, mres):
        io = I.nlri_construct(fam, rs, withdraw=wd)
        if _skip(mo) or 'unmodelled' in io:
            res.stats.skipped += 1
            continue
        res.stats.case(('nc', fam, jdump(rs), wd), nontrivial=bool(rs))
        if io != mo:
            res.disagree('%s.construct' % fam, {'fam': fam, 'routes': rs, 'withdraw': wd}, io, mo)

    # ---- route distinguishers and label stacks on their own
    rdb = [b'', b'\x00', b'\x00\x00', b'\x00\x01', b'\x00\x02', b'\x00\x03\x01\x02'] + \
          [struct.pack('!H', t) + bytes(range(1, 1 + k)) for t in (0, 1, 2, 3, 256, 65535) for k in range(0, 9)]
    for b, mo in zip(rdb, model.batch([{'op': 'mp.rd.parse', 'hex': b.hex()} for b in rdb])):
        io = I.rd_parse(b)
        res.stats.case(('rd', b.hex()))
        if io != mo:
            res.disagree('MPLSVPN.parse_rd', {'hex': b.hex()}, io, mo)
    rds = RDS + [['as', 65535, P32], ['as', 65536, 65536], ['as', P32, 0], ['ip', 5, 65536]]
    for rd, mo in zip(rds, model.batch([{'op': 'mp.rd.construct', 'rd': rd} for rd in rds])):
        io = I.rd_construct(rd)
        res.stats.case(('rdc', jdump(rd)))
        if io != mo:
            res.disagree('MPLSVPN.construct_rd', {'rd': rd}, io, mo)
        elif 'hex' in io and rd_ok(rd) and I.rd_parse(bytes.fromhex(io['hex'])) != {'ok': rd}:
            res.fail('C07', 'route distinguisher does not decode back', {'rd': rd, 'hex': io['hex']})
    stacks = [[x] for x in LABELS] + [[a, b] for a in LABELS for b in LABELS] + \
             [[], [2 ** 20], [2 ** 28 - 1], [2 ** 28], [1, 2 ** 28], [2 ** 28, 1], [5, 6, 7, 8]]
    for vpn in (False, True):
        for ls, mo in zip(stacks, model.batch([{'op': 'mp.labels.construct', 'vpn': vpn, 'labels': ls} for ls in stacks])):
            io = I.labels_construct(ls, vpn)
            res.stats.case(('lc', vpn, jdump(ls)))
            if io != mo:
                res.disagree('construct_mpls_label_stack', {'labels': ls, 'vpn': vpn}, io, mo)
    lbs = [b'', b'\x00', b'\x00\x00'] + [bytes([a, b, c]) + t for a in (0, 0x80, 0xff) for b in (0, 1) for c in (0, 1, 0x10, 0x11, 0xff)
                                         for t in (b'', b'\x00', b'\x00\x00\x01', b'\x00\x00\x00\x00\x00\x00\x00')]
    for b, mo in zip(lbs, model.batch([{'op': 'mp.labels.parse', 'hex': b.hex()} for b in lbs])):
        for vpn in (False, True):
            io = I.labels_parse(b, vpn)
            res.stats.case(('lp', vpn, b.hex()))
            if io != mo:
                res.disagree('parse_mpls_label_stack', {'hex': b.hex(), 'vpn': vpn}, io, mo)

    # ---- C15: decode(a || b) == decode(a) + decode(b) on the real code
    compose(res, r, tier, model)
    compose_ipv4_unicast(res, r, tier)


def compose(res, r, tier, model):
    npool = 26 if tier == 'quick' else 70
    for fam in FAMS:
        for wd in ((False, True) if fam.startswith('vpn') else (False,)):
            af = AFV[fam]
            width = 32 if af == 4 else 128
            # pool: every element width the format allows (every octet count of the prefix, 1..3 labels, each RD type)
            routes = []
            for l in sorted(set([0, 1, 7, 8, 9, 15, 16, 17, 24, 25, 31, 32, 33, 63, 64, 65, 120, 121, 127, 128]) &
                            set(range(width + 1))):
                rt = rnd_route(r, fam, wd=wd)
                p = mk_pfx(af, r.choice(V4_ADDRS if af == 4 else V6_ADDRS), l)
                if fam == 'u6':
                    rt = p
                else:
                    rt['prefix'] = p
                    if fam.startswith('lu'):
                        if rt['label'][-1] == 0:
                            rt['label'][-1] = 16
                        while 24 * len(rt['label']) + l > 255:
                            rt['label'].pop(0)
                    else:
                        while 8 * (3 * len(rt['label']) + 8) + l > 255:
                            rt['label'].pop(0)
                routes.append(rt)
            while len(routes) < npool:
                rt = rnd_route(r, fam, wd=wd)
                if fam.startswith('lu') and rt['label'][-1] == 0:
                    rt['label'][-1] = 3
                routes.append(rt)
            if fam == 'u6':
                routes += [[6, 0, 0], [6, 0, 0]]
            enc = []
            for rt in routes:
                c = I.nlri_construct(fam, [rt], withdraw=wd)
                if 'hex' in c:
                    enc.append((rt, bytes.fromhex(c['hex'])))
            if fam.startswith('lu'):
                # the same routes as another speaker may encode them: traffic-class (Exp) bits set in the bottom label
                # entry (yabgp's own encoder always writes them as 0, a well-formed entry may carry any value)
                for rt, e in list(enc)[::3]:
                    n = len(rt['label'])
                    if n and len(e) > 3 * n:
                        tc = r.choice([0x02, 0x04, 0x08, 0x0e])
                        enc.append((rt, e[:3 * n] + bytes([e[3 * n] | tc]) + e[3 * n + 1:]))
            tuples = [(x, y) for x in enc for y in enc]
            for _ in range(150 if tier == 'quick' else 3000):
                tuples.append(tuple(r.choice(enc) for _ in range(r.choice([3, 4, 6, 10]))))
            reqs = []
            for tp in tuples:
                joined = b''.join(e for _, e in tp)
                reqs.append({'op': 'mp.nlri.parse', 'fam': fam, 'withdraw': wd, 'addpath': False, 'hex': joined.hex()})
            mres = model.batch(reqs)
            for tp, mo in zip(tuples, mres):
                joined = b''.join(e for _, e in tp)
                whole = I.nlri_parse(fam, joined, withdraw=wd)
                parts = [I.nlri_parse(fam, e, withdraw=wd) for _, e in tp]
                res.stats.case(('k', fam, wd, joined.hex()))
                res.stats.hit('compose_%s' % fam)
                if whole != mo:
                    res.disagree('%s.parse (concatenation)' % fam, {'fam': fam, 'hex': joined.hex(), 'withdraw': wd}, whole, mo)
                if any('ok' not in p for p in parts):
                    continue
                want = {'ok': [x for p in parts for x in p['ok']]}
                if whole != want:
                    key = None
                    if fam == 'u6' and zero_pair(tp):
                        key = KF_ZERO
                    res.fail('C15', 'decode(a||b) != decode(a)+decode(b) for %s' % fam,
                             {'fam': fam, 'withdraw': wd, 'parts': [e.hex() for _, e in tp], 'whole': whole, 'want': want},
                             key=key)


def compose_ipv4_unicast(res, r, tier):
    """C15 for the IPv4 unicast NLRI decoder that MP_REACH_NLRI / MP_UNREACH_NLRI (1,1) use (IPv4Unicast.parse), with and
    without ADD-PATH identifiers: decode(a||b) = decode(a) + decode(b).  Implementation only (the Lean multiprotocol model
    covers the families of FAMS; the prefix list of the UPDATE body itself is in suite compose)."""
    import struct
    from yabgp.message.attribute.nlri.ipv4_unicast import IPv4Unicast
    from lib.base import with_budget

    def dec(b, addpath):
        st, v = with_budget(2.0, IPv4Unicast.parse, bytes(b), addpath)
        return ('ok', v) if st == 'ok' else (st, None)
    for addpath in (False, True):
        pool = []
        for ln in (0, 1, 7, 8, 9, 15, 16, 17, 23, 24, 25, 31, 32):
            n = (ln + 7) // 8
            addr = bytes([10, 200 + ln, 3, 4])[:n]
            if ln % 8 and n:
                addr = addr[:-1] + bytes([addr[-1] & (0xff << (8 - ln % 8)) & 0xff])
            enc = bytes([ln]) + addr
            if addpath:
                enc = struct.pack('!I', r.choice([0, 1, 2, 7, 2 ** 32 - 1, ln + 100])) + enc
            pool.append(enc)
        tuples = [(a, b) for a in pool for b in pool] + [tuple(r.choice(pool) for _ in range(r.choice([3, 5, 9]))) for _ in range(100)]
        for tp in tuples:
            whole = dec(b''.join(tp), addpath)
            parts = [dec(e, addpath) for e in tp]
            res.stats.case(('k', 'u4', addpath, b''.join(tp).hex()))
            res.stats.hit('compose_u4' + ('_addpath' if addpath else ''))
            if any(p[0] != 'ok' for p in parts):
                res.fail('C15', 'a single well-formed IPv4 unicast NLRI entry does not decode', {'fam': 'u4', 'addpath': addpath,
                                                                                             'parts': [e.hex() for e in tp]}, key='u4-single')
                break
            want = [x for p in parts for x in p[1]]
            if whole[0] != 'ok' or whole[1] != want:
                res.fail('C15', 'decode(a||b) != decode(a)+decode(b) for IPv4 unicast NLRI (MP_REACH_NLRI / MP_UNREACH_NLRI 1/1)',
                         {'fam': 'u4', 'addpath': addpath, 'parts': [e.hex() for e in tp], 'whole': repr(whole)[:300], 'want': repr(want)[:300]},
                         key='u4-compose')
                break


def zero_pair(tp):
    """two consecutive default routes end the concatenation (00 00 is what is left at a loop head), or a single part
    already is one (decode(a) itself drops it)"""
    encs = [e for _, e in tp]
    return len(encs) >= 2 and encs[-1] == b'\x00' and encs[-2] == b'\x00'


# ------------------------------------------------------------------------------------------------ replay

def replay_witness(witness, driver):
    """a recorded known-finding witness: {'suite': 'mpnlri', 'attr': 14|15, 'value': V}"""
    res = SuiteResult('mpnlri')
    model, owned = I.model_driver(driver)
    try:
        attr, v = witness['attr'], witness['value']
        ic = I.mp_construct(attr, v)
        mo = model.call({'op': 'mp.construct', 'attr': attr, 'value': v})
        if ic != mo:
            res.disagree('construct (witness)', witness, ic, mo)
        oracle(res, attr, v)
    finally:
        if owned:
            model.close()
    return res


def replay(path, driver):
    res = SuiteResult('mpnlri')
    data = json.load(open(path))
    for f in data.get('failures', []):
        rp = f.get('replay', {})
        if 'attr' in rp and 'value' in rp:
            oracle(res, rp['attr'], rp['value'])
    return res
