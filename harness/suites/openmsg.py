"""Correspondence suite `openmsg` (Model/Open.lean vs yabgp/message/{open,notification,keepalive,route_refresh}.py)
and the C14 oracles: round trip through the implementation, and decoding of the Lean reference encoder's
output (Spec/RfcOpen.lean) for every capability combination / order / packaging."""
import itertools
import struct

from lib.base import SuiteResult, rng_for, jdump
from lib import astscan
from gen import values as G
import impl_codec as I

AS_POOL = [1, 2, 100, 23455, 23456, 23457, 64512, 65534, 65535, 65536, 65537, 131072, 2 ** 31 - 1, 2 ** 31,
           2 ** 32 - 2, 2 ** 32 - 1]
HOLD_POOL = [0, 1, 2, 3, 4, 9, 30, 90, 180, 240, 255, 256, 65534, 65535]
KNOWN_FAM = [(1, 1), (1, 2), (2, 1), (1, 4), (2, 4), (1, 133), (1, 128), (2, 128), (25, 70), (16388, 71), (1, 73), (2, 133)]
CAP_KINDS = ['mp', 'rr', 'crr', 'err', 'gr', 'cms', 'as4', 'addpath', 'llgr', 'extnh', 'unknown']
KNOWN_CODES = [65, 1, 2, 128, 64, 131, 70, 69, 71, 5]


def rnd_cap(r, kind, asn):
    if kind == 'mp':
        a, s = r.choice(KNOWN_FAM + [(r.getrandbits(16), r.getrandbits(8))])
        return {'k': 'mp', 'afi': a, 'safi': s}
    if kind in ('rr', 'crr', 'err'):
        return {'k': kind}
    if kind in ('gr', 'cms'):
        return {'k': kind, 'body': bytes(r.getrandbits(8) for _ in range(r.choice([0, 2, 6, 10]))).hex()}
    if kind == 'as4':
        return {'k': 'as4', 'asn': asn}
    if kind == 'addpath':
        def tup():
            # mostly entries the decoder has a name for; also (in range, well-formed) entries it does not know - another
            # family, a Send/Receive value outside 1..3 - which must not disturb the known ones around them
            x = r.random()
            if x < 0.7:
                return list(r.choice(KNOWN_FAM)) + [r.choice([1, 2, 3])]
            if x < 0.82:
                return list(r.choice(KNOWN_FAM)) + [r.choice([0, 4, 255])]
            return r.choice([[2, 2], [1, 132], [25, 65], [1, 129], [r.choice([0, 3, 99, 65535]), r.choice([0, 3, 99, 255])]]) + [r.choice([1, 2, 3])]
        return {'k': 'addpath', 'l': [tup() for _ in range(r.choice([0, 1, 2, 3, 4]))]}
    if kind == 'llgr':
        return {'k': 'llgr', 'l': [[r.getrandbits(16), r.getrandbits(8), r.getrandbits(8), r.choice([0, 1, 2 ** 24 - 1, r.getrandbits(24)])]
                                    for _ in range(r.choice([0, 1, 2]))]}
    if kind == 'extnh':
        return {'k': 'extnh', 'l': [[r.getrandbits(16), r.getrandbits(16), r.getrandbits(16)] for _ in range(r.choice([0, 1, 3]))]}
    code = r.choice([c for c in [0, 3, 4, 6, 63, 66, 67, 68, 72, 73, 127, 129, 130, 132, 254, 255, r.randrange(256)]
                     if c not in KNOWN_CODES])
    return {'k': 'unknown', 'code': code, 'body': bytes(r.getrandbits(8) for _ in range(r.choice([0, 1, 4, 9]))).hex()}


def ref_cases(r, tier):
    """(asn, hold, bgp_id, params) for the reference encoder"""
    cases = []
    # every subset of capability kinds of size <= 3 in every order, one capability per parameter and all in one
    kinds = CAP_KINDS
    for k in range(0, 4 if tier != 'quick' else 3):
        for combo in itertools.permutations(kinds, k):
            asn = r.choice(AS_POOL)
            if asn > 65535 and 'as4' not in combo:
                asn = r.choice([a for a in AS_POOL if a <= 65535])
            caps = [rnd_cap(r, kd, asn) for kd in combo]
            hold = r.choice(HOLD_POOL)
            bid = r.choice(G.ADDRS[1:])
            cases.append((asn, hold, bid, [[c] for c in caps]))
            if caps:
                cases.append((asn, hold, bid, [caps]))
    n = 600 if tier == 'quick' else 30000
    for _ in range(n):
        asn = r.choice(AS_POOL + [r.getrandbits(32) or 1])
        ncap = r.choice([0, 1, 2, 3, 5, 8])
        kindsel = [r.choice(kinds) for _ in range(ncap)]
        if asn > 65535 and 'as4' not in kindsel:
            kindsel.append('as4')
        caps = [rnd_cap(r, kd, asn) for kd in kindsel]
        # random packaging
        params = []
        i = 0
        while i < len(caps):
            k = r.choice([1, 1, 2, 3])
            params.append(caps[i:i + k])
            i += k
        if r.random() < 0.1:
            params.append([])
        cases.append((asn, r.choice(HOLD_POOL + [r.getrandbits(16)]), r.choice(G.ADDRS[1:] + [r.getrandbits(32) or 1]), params))
    return cases


def boundary_cases(r, driver, tier):
    """reference OPENs whose optional parameters add up to exactly 255, 254, 253, 252 octets (the largest values of the
    one-octet length) and to a few values below: a base of known capabilities is padded with one parameter holding one
    capability the decoder has no name for (round 10: a decoder that treats Opt Parm Len 255 specially was unseen)"""
    out = []
    bases = []
    for _ in range(40 if tier == 'quick' else 400):
        asn = r.choice(AS_POOL)
        kindsel = [r.choice(CAP_KINDS) for _ in range(r.choice([0, 1, 2, 4]))]
        if asn > 65535 and 'as4' not in kindsel:
            kindsel.append('as4')
        caps = [rnd_cap(r, kd, asn) for kd in kindsel]
        params = [[c] for c in caps] if r.random() < 0.5 else ([caps] if caps else [])
        bases.append((asn, r.choice(HOLD_POOL), r.choice(G.ADDRS[1:]), params))
    sres = driver.batch([{'op': 'spec.refopen', 'asn': a, 'hold_time': h, 'bgp_id': b, 'params': p} for (a, h, b, p) in bases])
    for (a, h, b, p), so in zip(bases, sres):
        if 'hex' not in so:
            continue
        ln = len(so['hex']) // 2 - 10
        for target in (255, 254, 253, 252, 129, 128, 127):
            pad = target - ln - 4
            if 0 <= pad <= 251:
                code = r.choice([c for c in [0, 3, 66, 127, 129, 254, 255] if c not in KNOWN_CODES])
                capu = {'k': 'unknown', 'code': code, 'body': bytes(r.getrandbits(8) for _ in range(pad)).hex()}
                where = r.choice(['front', 'back'])
                out.append((a, h, b, ([[capu]] + p) if where == 'front' else (p + [[capu]])))
    return out


def rnd_local_caps(r):
    c = {}
    if r.random() < 0.8:
        c['afi_safi'] = [list(r.choice(KNOWN_FAM)) for _ in range(r.choice([0, 1, 1, 2, 4]))]
    for k in ('cisco_route_refresh', 'route_refresh', 'four_bytes_as', 'enhanced_route_refresh', 'graceful_restart',
              'cisco_multi_session'):
        x = r.random()
        if x < 0.45:
            c[k] = True
        elif x < 0.8:
            c[k] = False
    if r.random() < 0.3:
        c['ext_nexthop'] = [[r.choice([1, 2]), r.choice([1, 2, 4, 128]), r.choice([1, 2])] for _ in range(r.choice([0, 1, 3]))]
    if r.random() < 0.4:
        c['add_path'] = r.choice([1, 2, 3])
    return c


def expected_from_local(asn, hold, bid, caps):
    """C14 round trip: what decoding a constructed OPEN must return"""
    d = {}
    if caps.get('afi_safi'):
        d['afi_safi'] = [list(x) for x in caps['afi_safi']]
    if caps.get('cisco_route_refresh'):
        d['cisco_route_refresh'] = True
    if caps.get('route_refresh'):
        d['route_refresh'] = True
    if asn > 65535 or caps.get('four_bytes_as'):
        d['four_bytes_as'] = True
    if caps.get('ext_nexthop') is not None:
        d['ext_nexthop'] = [list(x) for x in caps['ext_nexthop']]
    if caps.get('add_path') is not None:
        d['add_path'] = [[1, 1, caps['add_path']]]
    if caps.get('enhanced_route_refresh'):
        d['enhanced_route_refresh'] = True
    return {'ok': {'version': 4, 'asn': asn, 'hold_time': hold, 'bgp_id': G.ip(bid), 'capabilities': d}}


def earlier_traffic():
    """what the same process decoded before the OPENs under test: UPDATEs whose MP_REACH_NLRI / MP_UNREACH_NLRI name address
    families the agent has no name for, a NOTIFICATION, a ROUTE-REFRESH.  Decoding an OPEN is a function of its octets: it does
    not depend on what was decoded earlier (tables shared between the decoders must not be written to)."""
    for afi, safi in ((2, 2), (1, 132), (25, 65), (1, 129), (3, 1), (65535, 255)):
        mp = struct.pack('!HB', afi, safi) + b'\x04\x0a\x00\x00\x01\x00' + b'\x18\x0a\x01\x02'
        attrs = bytes.fromhex('40010100' '400200') + b'\x80\x0e' + bytes([len(mp)]) + mp
        I.upd_parse(struct.pack('!H', 0) + struct.pack('!H', len(attrs)) + attrs, True, False)
        un = struct.pack('!HB', afi, safi) + b'\x18\x0a\x01\x02'
        attrs = b'\x80\x0f' + bytes([len(un)]) + un
        I.upd_parse(struct.pack('!H', 0) + struct.pack('!H', len(attrs)) + attrs, False, False)
    I.notif_parse(b'\x06\x02')
    I.rr_parse(b'\x00\x02\x00\x02')


def run(seed, tier, driver):
    res = SuiteResult('openmsg')
    r = rng_for(seed, 'openmsg', tier)
    earlier_traffic()

    # ---- OPEN construct correspondence + round trip oracle
    ccases = []
    for asn in AS_POOL:
        for hold in (0, 3, 180, 65535):
            ccases.append((4, asn, hold, 0x01020304, {}))
            ccases.append((4, asn, hold, 0xffffffff, {'four_bytes_as': True, 'afi_safi': [[1, 1]]}))
    for _ in range(400 if tier == 'quick' else 20000):
        ccases.append((4, r.choice(AS_POOL + [r.getrandbits(32) or 1]), r.choice(HOLD_POOL + [r.getrandbits(16)]),
                       r.choice(G.ADDRS[1:] + [r.getrandbits(32) or 1]), rnd_local_caps(r)))
    for bad in ((4, 2 ** 32, 180, 1, {}), (256, 1, 180, 1, {}), (4, 1, 65536, 1, {}), (4, 1, 180, 2 ** 32, {}),
                (4, 1, 180, 1, {'afi_safi': [[1, 1]] * 40}), (4, 1, 180, 1, {'add_path': 4}),
                (4, 1, 180, 1, {'afi_safi': [[65536, 1]]}), (3, 1, 180, 1, {})):
        ccases.append(bad)
    mres = driver.batch([{'op': 'open.construct', 'version': v, 'asn': a, 'hold_time': h, 'bgp_id': b, 'caps': c}
                         for (v, a, h, b, c) in ccases])
    wires = []
    for (v, a, h, b, c), mo in zip(ccases, mres):
        io = I.open_construct(v, a, h, b, c)
        res.stats.case(('oc', v, a, h, b, jdump(c)), sample={'open.construct': [v, a, h, b, c], 'impl': io})
        res.stats.hit('open_construct_' + ('ok' if 'hex' in io else 'raise'))
        if io != mo:
            res.disagree('Open.construct', {'version': v, 'asn': a, 'hold_time': h, 'bgp_id': b, 'caps': c}, io, mo)
        if 'hex' in io and v == 4 and 0 < a < 2 ** 32:
            wire = bytes.fromhex(io['hex'])
            wires.append(wire[19:])
            if wire[:16] != b'\xff' * 16 or struct.unpack('!H', wire[16:18])[0] != len(wire) or wire[18] != 1:
                res.fail('C14', 'constructed OPEN has a wrong header', {'args': [v, a, h, b, c], 'hex': wire.hex()})
                continue
            got = I.open_parse(wire[19:])
            exp = expected_from_local(a, h, b, c)
            res.stats.hit('open_roundtrip')
            if got != exp:
                res.fail('C14', 'Open.parse(Open.construct(x)) != x',
                         {'args': [v, a, h, b, c], 'hex': wire.hex(), 'decoded': got, 'expected': exp})

    # ---- reference encoder (Lean spec) decoded by the implementation and by the model
    rc = ref_cases(r, tier) + boundary_cases(r, driver, tier)
    sres = driver.batch([{'op': 'spec.refopen', 'asn': a, 'hold_time': h, 'bgp_id': b, 'params': p} for (a, h, b, p) in rc])
    bodies = []
    for (a, h, b, p), so in zip(rc, sres):
        if 'hex' not in so:
            res.stats.skipped += 1
            continue
        body = bytes.fromhex(so['hex'])
        if len(body) - 10 > 255 or len(body) + 19 > 4096:
            res.stats.skipped += 1
            continue
        bodies.append(body)
        got = I.open_parse(body)
        res.stats.case(('ref', so['hex']), sample={'refopen': {'asn': a, 'params': p}, 'hex': so['hex'], 'impl': got})
        res.stats.hit('refopen_params_%d' % min(len(p), 5))
        if len(body) - 10 >= 252:
            res.stats.hit('refopen_optlen_%d' % (len(body) - 10))
        for ps in p:
            for cdesc in ps:
                res.stats.hit('refopen_cap_' + cdesc['k'])
        if got != so['expect']:
            res.fail('C14', 'decoding of the reference OPEN encoding differs from the encoded value',
                     {'asn': a, 'hold_time': h, 'bgp_id': b, 'params': p, 'hex': so['hex'], 'decoded': got,
                      'expected': so['expect']})

    # ---- OPEN parse correspondence: reference bodies, constructed bodies, mutations, literals, small scopes
    pcases = list(bodies[:4000]) + wires[:2000]
    for body in (bodies + wires)[: (300 if tier == 'quick' else 6000)]:
        for _ in range(3):
            pcases.append(G.mutate(r, body))
    for lit in astscan.harvest_byte_literals():
        if lit[:16] == b'\xff' * 16 and len(lit) > 19 and lit[18] == 1:
            pcases.append(lit[19:])
            for _ in range(10):
                pcases.append(G.mutate(r, lit[19:]))
    base = bytes([4, 0, 100, 0, 180, 1, 2, 3, 4])
    for n in range(0, 11):
        pcases.append((base + b'\x00')[:n])
    for v in range(0, 8):
        pcases.append(bytes([v]) + base[1:] + b'\x00')
    pcases.append(bytes([4, 0, 0, 0, 180, 1, 2, 3, 4, 0]))
    pcases.append(bytes([4, 0, 100, 0, 180, 0, 0, 0, 0, 0]))
    # optional-parameter / capability headers: every code with value length 0..8, truncated or not
    for code in range(256):
        for ln in (0, 1, 2, 3, 4, 5, 6, 7, 8):
            val = bytes((code + i) & 255 for i in range(ln))
            cap = bytes([code, ln]) + val
            pcases.append(base + bytes([len(cap) + 2, 2, len(cap)]) + cap)
            if ln and code in KNOWN_CODES:
                pcases.append(base + bytes([len(cap) + 1, 2, len(cap) - 1]) + cap[:-1])
    for t in (0, 1, 2, 3, 255):
        for tail in (b'', b'\x00', b'\x02', b'\x02\x00', b'\x02\x01', b'\x02\x02\x41', b'\x02\x06\x41\x04\x00\x01\x00\x00'):
            pcases.append(base + bytes([len(tail) + 2]) + bytes([t, len(tail)]) + tail)
            pcases.append(base + bytes([1]) + tail)
            pcases.append(base + bytes([0]) + tail)
    mres = driver.batch([{'op': 'open.parse', 'hex': b.hex()} for b in pcases])
    for b, mo in zip(pcases, mres):
        io = I.open_parse(b)
        res.stats.case(('op', b.hex()), nontrivial=len(b) > 0, sample={'open.parse': b.hex(), 'impl': io})
        res.stats.hit('open_parse_' + ('ok' if 'ok' in io else io.get('err', 'other')))
        if io != mo:
            res.disagree('Open.parse', {'hex': b.hex()}, io, mo)

    # ---- NOTIFICATION / KEEPALIVE / ROUTE-REFRESH: exhaustive code pairs, data lengths, AFI/SAFI table x both types
    reqs, impls, descs = [], [], []
    # data of every length up to what a 4096-octet message carries (21 + 4075), at the boundaries for a few code pairs
    long_data = {(1, 2): [255, 256, 4074, 4075], (2, 7): [257, 4075], (6, 2): [1000, 4074, 4075], (3, 1): [4075]}
    for e in list(range(0, 9)) + [255, 256]:
        for s in list(range(0, 13)) + [255, 256]:
            for data in [b'', b'\x00', b'\x01\x02', bytes(range(40))] + [bytes((i * 7 + n) & 255 for i in range(n)) for n in long_data.get((e, s), [])]:
                reqs.append({'op': 'notif.construct', 'error': e, 'sub': s, 'data': data.hex()})
                io = I.notif_construct(e, s, data)
                impls.append(io)
                descs.append(('Notification.construct', [e, s, data.hex()]))
                if 'hex' in io:
                    wire = bytes.fromhex(io['hex'])
                    got = I.notif_parse(wire[19:])
                    if (wire[:16] != b'\xff' * 16 or struct.unpack('!H', wire[16:18])[0] != len(wire) or wire[18] != 3
                            or got != {'ok': [e, s, data.hex()]}):
                        res.fail('C14', 'NOTIFICATION round trip', {'args': [e, s, data.hex()], 'hex': wire.hex(), 'decoded': got})
    for n in range(0, 6):
        for fill in (0, 1, 255):
            b = bytes([fill] * n)
            reqs.append({'op': 'notif.parse', 'hex': b.hex()}); impls.append(I.notif_parse(b)); descs.append(('Notification.parse', b.hex()))
            reqs.append({'op': 'keepalive.parse', 'hex': b.hex()}); impls.append(I.keepalive_parse(b)); descs.append(('KeepAlive.parse', b.hex()))
            reqs.append({'op': 'rr.parse', 'hex': b.hex()}); impls.append(I.rr_parse(b)); descs.append(('RouteRefresh.parse', b.hex()))
    reqs.append({'op': 'keepalive.construct'}); impls.append(I.keepalive_construct()); descs.append(('KeepAlive.construct', None))
    ka = bytes.fromhex(I.keepalive_construct()['hex'])
    if ka != b'\xff' * 16 + b'\x00\x13\x04' or I.keepalive_parse(ka[19:]) != {'ok': None}:
        res.fail('C14', 'KEEPALIVE round trip', {'hex': ka.hex()})
    fams = KNOWN_FAM + [(0, 0), (65535, 255), (65536, 1), (1, 256)]
    for ty in (5, 128):
        for (afi, safi) in fams:
            for rs in (0, 1, 255):
                reqs.append({'op': 'rr.construct', 'type': ty, 'afi': afi, 'res': rs, 'safi': safi})
                io = I.rr_construct(ty, afi, rs, safi)
                impls.append(io); descs.append(('RouteRefresh.construct', [ty, afi, rs, safi]))
                if 'hex' in io:
                    wire = bytes.fromhex(io['hex'])
                    got = I.rr_parse(wire[19:])
                    if (wire[:16] != b'\xff' * 16 or struct.unpack('!H', wire[16:18])[0] != len(wire) or wire[18] != ty
                            or got != {'ok': [afi, rs, safi]}):
                        res.fail('C14', 'ROUTE-REFRESH round trip', {'args': [ty, afi, rs, safi], 'hex': wire.hex(), 'decoded': got})
    mres = driver.batch(reqs)
    for rq, io, mo, ds in zip(reqs, impls, mres, descs):
        res.stats.case(('sm', jdump(rq)), sample={'req': rq, 'impl': io})
        res.stats.hit(ds[0])
        if io != mo:
            res.disagree(ds[0], rq, io, mo)
    return res
