"""Suite `compose` (C15, the list kinds of the UPDATE and OPEN models): the real decoders on a, b and a‖b drawn from per-kind
pools that contain every element width the format allows; all attribute permutations of up to 5 attributes; unknown
element insertion.  Every a‖b is also decoded by the Lean model (correspondence on exactly the inputs the theorems of
Props/C15.lean speak about)."""
import itertools
import struct

from lib.base import SuiteResult, rng_for, has_unmodelled, jdump
from gen import values as G
import impl_codec as I
from suites.refupdate import ref_value, CODES
from suites.update import _attr_blob, _body, FLAGS


def pfx_pool(r, addpath):
    """one encoding per prefix length x trailing-bit pattern (RFC 4271: trailing bits are irrelevant)"""
    out = []
    for ln in range(33):
        for mode in ('zero', 'ones'):
            a = r.choice(G.ADDRS + [r.getrandbits(32)])
            mask = (0xffffffff << (32 - ln)) & 0xffffffff if ln else 0
            free = 32 - ln
            junk = 0 if (mode == 'zero' or free == 0) else (1 << free) - 1
            n = (ln + 7) // 8
            enc = bytes([ln]) + struct.pack('!I', (a & mask) | junk)[:n]
            if addpath:
                enc = struct.pack('!I', G.rnd_u32(r)) + enc
            out.append(enc)
    return out


def seg_pool(r, asn4):
    w = 4 if asn4 else 2
    out = []
    for t in (1, 2, 3, 4):
        for n in (0, 1, 2, 7, 255):
            out.append(bytes([t, n]) + bytes(r.getrandbits(8) for _ in range(n * w)))
    return out


def attr_value(body, code, asn4=False):
    res = I.upd_parse(_body(attrs=_attr_blob(FLAGS.get(code, 0xc0), code, body, ext=len(body) > 255)), asn4, False)
    if 'attr' not in res or res.get('sub_error') is not None:
        return ('bad', res)
    d = dict((k, v) for k, v in res['attr'])
    return ('ok', d.get(code))


CAP_POOL = [
    (1, bytes([0, 1, 0, 1])), (1, bytes([0, 2, 0, 1])), (1, bytes([0, 1, 0, 128])), (1, bytes([0, 25, 0, 70])),
    (2, b''), (128, b''), (64, b''), (64, bytes([0x40, 0x78])), (131, b''), (70, b''),
    (65, struct.pack('!I', 65002)), (65, struct.pack('!I', 4200000000)),
    (69, bytes([0, 1, 1, 3])), (69, bytes([0, 1, 1, 1, 0, 2, 1, 2])), (69, bytes([0, 2, 1, 3])),
    (71, bytes([0, 1, 1, 0, 0, 0, 10])), (5, bytes([0, 1, 0, 1, 0, 2])),
    (3, b''), (66, bytes([1, 2, 3])), (73, bytes([4]) + b'host' + bytes([0])), (255, b'\x00' * 40), (0, b''),
]
KNOWN_CAPS = {65, 1, 2, 128, 64, 131, 70, 69, 71, 5}


def open_body(params, asn=65002):
    opt = b''
    for caps in params:
        v = b''.join(bytes([c, len(b)]) + b for c, b in caps)
        opt += bytes([2, len(v)]) + v
    return struct.pack('!BHHIB', 4, asn if asn < 65536 else 23456, 180, 0x0a000002, len(opt)) + opt


def run(seed, tier, driver):
    res = SuiteResult('compose')
    r = rng_for(seed, 'compose', tier)
    model_reqs = []     # (request, impl result, what)

    # ---------------------------------------------------------------- IPv4 prefix lists
    for addpath in (False, True):
        pool = pfx_pool(r, addpath)
        dec = {}
        for e in pool:
            dec[e] = I.pfx_parse(e, addpath)
        pairs = list(itertools.product(pool, pool))
        if tier == 'quick':
            pairs = r.sample(pairs, min(3000, len(pairs)))
        tuples = [tuple(r.choice(pool) for _ in range(r.choice([3, 4, 6]))) for _ in range(200 if tier == 'quick' else 5000)]
        for tup in pairs + tuples:
            whole = b''.join(tup)
            got = I.pfx_parse(whole, addpath)
            parts = [dec[e] for e in tup]
            res.stats.case(('pfx', whole.hex(), addpath), sample={'prefix list': whole.hex(), 'impl': got})
            res.stats.hit('kind_prefix_list' + ('_addpath' if addpath else ''))
            if any('ok' not in p for p in parts):
                res.fail('C15', 'a single well-formed prefix encoding does not decode', {'parts': [e.hex() for e in tup], 'addpath': addpath},
                         key='prefix-list')
                continue
            exp = {'ok': sum((p['ok'] for p in parts), [])}
            if got != exp:
                res.fail('C15', 'prefix list: decode(a‖b) != decode(a) + decode(b)',
                         {'parts': [e.hex() for e in tup], 'addpath': addpath, 'decoded': got, 'expected': exp}, key='prefix-list')
            model_reqs.append(({'op': 'pfx.parse', 'hex': whole.hex(), 'addpath': addpath}, got, 'parse_prefix_list'))

    # ---------------------------------------------------------------- word lists: communities, cluster list, large community
    words = [struct.pack('!I', v) for v in (0, 1, 0xFFFF0000, 0xFFFF029A, 0xFFFFFF01, 0xFFFFFF04, 0xFFFFFFFF, 65536, 0x0a000001)]
    words += [struct.pack('!I', r.getrandbits(32)) for _ in range(8)]
    triples = [struct.pack('!III', a, b, c) for a, b, c in ((0, 0, 0), (1, 2, 3), (2 ** 32 - 1, 2 ** 31, 2 ** 31 - 1), (65001, 0, 2 ** 32 - 1))]
    triples += [struct.pack('!III', r.getrandbits(32), r.getrandbits(32), r.getrandbits(32)) for _ in range(4)]
    # extended communities: kinds the decoder renders as text and kinds it has no decoder for (reported by type and value),
    # the same unknown type several times - in one list and across lists (what was decoded earlier must not matter)
    exts = [bytes.fromhex(h) for h in ('0002fde900000064', '010201020304000a', '0202000100000007', '0003fde900000001', '030b000000000005',
                                       '030c000000000008', '8006000000000000', '800600004a7a0000', '000500000000002a', '000500000000002b',
                                       '0306aabbccddeeff', '8001000000000001', '8001000000000002', '4305000000000009', '9999010203040506')]
    for code, pool, name in ((8, words, 'communities'), (10, words, 'cluster_list'), (32, triples, 'large_communities'),
                             (16, exts, 'ext_communities')):
        lists = [b''] + pool + [b''.join(r.sample(pool, k)) for k in (2, 3, 5) for _ in range(6)]
        pairs = list(itertools.product(lists, lists))
        if tier == 'quick':
            pairs = r.sample(pairs, min(1000, len(pairs)))
        for a, b in pairs:
            if code == 16:
                import impl_xc as X

                def dec16(v):
                    d = X.ext_parse(v)
                    return ('ok', [x if isinstance(x, str) else jdump(x) for x in d['ok']]) if 'ok' in d else ('bad', d)
                da, db, dab = dec16(a), dec16(b), dec16(a + b)
            else:
                da, db, dab = attr_value(a, code), attr_value(b, code), attr_value(a + b, code)
            res.stats.case((name, (a + b).hex()), sample={name: (a + b).hex(), 'impl': dab})
            res.stats.hit('kind_' + name)
            if da[0] != 'ok' or db[0] != 'ok' or dab[0] != 'ok' or dab[1] != da[1] + db[1]:
                res.fail('C15', '%s: decode(a‖b) != decode(a) + decode(b)' % name,
                         {'code': code, 'a': a.hex(), 'b': b.hex(), 'decoded': [da, db, dab]}, key=name)
            if code != 16:
                model_reqs.append(({'op': 'upd.parse', 'hex': _body(attrs=_attr_blob(FLAGS[code], code, a + b, ext=len(a + b) > 255)).hex()},
                                   None, 'Update.parse(' + name + ')'))

    # ---------------------------------------------------------------- AS_PATH segments (both AS widths, AS4_PATH)
    for asn4, code in ((False, 2), (True, 2), (False, 17)):
        pool = seg_pool(r, asn4 or code == 17)
        pairs = list(itertools.product(pool, pool))
        if tier == 'quick':
            pairs = r.sample(pairs, min(200, len(pairs)))
        pairs += [(b''.join(r.sample(pool, 2)), b''.join(r.sample(pool, 3))) for _ in range(50)]
        for a, b in pairs:
            if len(a + b) > 4000:
                continue
            da, db, dab = attr_value(a, code, asn4), attr_value(b, code, asn4), attr_value(a + b, code, asn4)
            res.stats.case(('aspath', code, asn4, (a + b).hex()), sample={'aspath': (a + b).hex(), 'impl': dab})
            res.stats.hit('kind_aspath_segments_%d_%s' % (code, 'as4' if asn4 else 'as2'))
            if da[0] != 'ok' or db[0] != 'ok' or dab[0] != 'ok' or dab[1] != da[1] + db[1]:
                res.fail('C15', 'AS_PATH segments: decode(a‖b) != decode(a) + decode(b)',
                         {'code': code, 'asn4': asn4, 'a': a.hex(), 'b': b.hex(), 'decoded': [da, db, dab]}, key='aspath')
            model_reqs.append(({'op': 'upd.parse', 'asn4': asn4,
                                'hex': _body(attrs=_attr_blob(FLAGS[code], code, a + b, ext=len(a + b) > 255)).hex()},
                               None, 'Update.parse(aspath)'))

    # ---------------------------------------------------------------- OPEN capabilities
    ncap = 1500 if tier == 'quick' else 20000
    for _ in range(ncap):
        caps = [r.choice(CAP_POOL) for _ in range(r.choice([1, 2, 3, 4, 6]))]
        if sum(len(b) + 2 for _, b in caps) > 200:
            continue
        one = I.open_parse(open_body([caps]))
        # grouping into optional parameters is irrelevant
        cut = r.randrange(0, len(caps) + 1)
        two = I.open_parse(open_body([caps[:cut], caps[cut:]]))
        each = I.open_parse(open_body([[c] for c in caps]))
        res.stats.case(('caps', jdump([[c, b.hex()] for c, b in caps])), sample={'caps': [[c, b.hex()] for c, b in caps], 'impl': one})
        res.stats.hit('kind_open_capabilities')
        if not (one == two == each):
            res.fail('C15', 'OPEN capabilities: grouping into optional parameters changes the decoding',
                     {'caps': [[c, b.hex()] for c, b in caps], 'cut': cut, 'decoded': [one, two, each]}, key='capabilities')
        # the list-valued capabilities (address families, ADD-PATH entries) of a‖b are those of a followed by those of b
        da, db = I.open_parse(open_body([caps[:cut]])), I.open_parse(open_body([caps[cut:]]))
        if 'ok' in one and 'ok' in da and 'ok' in db:
            ca, cb, cab = (dict(x['ok']['capabilities']) for x in (da, db, one))
            for key in set(ca) | set(cb) | set(cab):
                vals = [c.get(key) for c in (ca, cb, cab)]
                if key in ('afi_safi', 'add_path'):
                    if (vals[0] or []) + (vals[1] or []) != (vals[2] or []):
                        res.fail('C15', 'OPEN capabilities: the %s entries of a‖b are not those of a followed by those of b' % key,
                                 {'caps': [[c, b_.hex()] for c, b_ in caps], 'cut': cut, 'decoded': [da, db, one]}, key='capabilities-concat')
                        break
            if set(cab) != set(ca) | set(cb):
                res.fail('C15', 'OPEN capabilities: the capabilities decoded from a‖b are not the union of those of a and of b',
                         {'caps': [[c, b_.hex()] for c, b_ in caps], 'cut': cut, 'decoded': [da, db, one]}, key='capabilities-concat')
        # an unknown capability between known ones changes nothing for the others
        known = [c for c in caps if c[0] in KNOWN_CAPS]
        base = I.open_parse(open_body([known]))
        if 'ok' in one and 'ok' in base:
            a, b = dict(one['ok']['capabilities']), dict(base['ok']['capabilities'])
            a.pop('unknown', None); b.pop('unknown', None)
            if a != b or one['ok']['asn'] != base['ok']['asn']:
                res.fail('C15', 'OPEN capabilities: unknown capabilities change what the known ones decode to',
                         {'caps': [[c, b_.hex()] for c, b_ in caps], 'decoded': [one, base]}, key='capabilities-unknown')
        elif ('ok' in one) != ('ok' in base):
            res.fail('C15', 'OPEN capabilities: unknown capabilities change whether the OPEN decodes',
                     {'caps': [[c, b_.hex()] for c, b_ in caps], 'decoded': [one, base]}, key='capabilities-unknown')
        model_reqs.append(({'op': 'open.parse', 'hex': open_body([caps[:cut], caps[cut:]]).hex()}, two, 'Open.parse'))

    # ---------------------------------------------------------------- attribute permutations, unknown attribute insertion
    nsets = 30 if tier == 'quick' else 400
    perm_cases = []
    for _ in range(nsets):
        asn4 = r.random() < 0.5
        k = r.choice([2, 3, 4, 5])
        codes = r.sample(CODES, k)
        attrs = [{'code': c, 'value': ref_value(r, c, asn4), 'ext': r.random() < 0.3, 'partial': r.random() < 0.2} for c in codes]
        for perm in itertools.permutations(attrs):
            perm_cases.append((asn4, attrs, list(perm), None))
    for _ in range(100 if tier == 'quick' else 3000):
        asn4 = r.random() < 0.5
        codes = r.sample(CODES, r.choice([6, 8, 11, 13]))
        attrs = [{'code': c, 'value': ref_value(r, c, asn4), 'ext': r.random() < 0.3, 'partial': r.random() < 0.2} for c in codes]
        perm = list(attrs); r.shuffle(perm)
        unk = None
        if r.random() < 0.6:
            unk = {'code': r.choice([0, 11, 12, 13, 19, 20, 21, 23, 24, 25, 26, 27, 28, 30, 31, 33, 34, 35, 36, 37, 38, 39, 41, 64, 128, 200, 254, 255]),
                   'value': {'raw': bytes(r.getrandbits(8) for _ in range(r.choice([0, 1, 7, 300]))).hex()}, 'ext': r.random() < 0.3}
            perm.insert(r.randrange(len(perm) + 1), unk)
        perm_cases.append((asn4, attrs, perm, unk))
    sres = driver.batch([{'op': 'spec.refupdate', 'asn4': a, 'addpath': False, 'withdraw': [], 'nlri': [], 'attrs': perm}
                         for (a, _, perm, _) in perm_cases])
    base_cache = {}
    for (asn4, attrs, perm, unk), so in zip(perm_cases, sres):
        if 'hex' not in so or not so.get('valid'):
            res.stats.skipped += 1
            continue
        got = I.upd_parse(bytes.fromhex(so['hex']), asn4, False)
        res.stats.case(('perm', so['hex'], asn4), sample={'attrs': perm, 'impl': got})
        res.stats.hit('kind_attr_permutation_%d' % min(len(attrs), 6) + ('_unknown_inserted' if unk else ''))
        # (Update.parse returns a dict: compare as dictionaries = sorted pair lists)
        exp = so['expect']
        if unk is not None:
            if got.get('sub_error') is not None or 'attr' not in got:
                res.fail('C15', 'an unknown attribute makes the UPDATE undecodable', {'attrs': perm, 'asn4': asn4, 'decoded': got},
                         key='attr-unknown')
                continue
            others = [kv for kv in got['attr'] if kv[0] != unk['code']]
            exp_others = [kv for kv in exp['attr'] if kv[0] != unk['code']]
            if others != exp_others:
                res.fail('C15', 'an unknown attribute changes what the other attributes decode to',
                         {'attrs': perm, 'asn4': asn4, 'decoded': got, 'expected': exp}, key='attr-unknown')
        elif got != exp:
            res.fail('C15', 'the order of the path attributes changes what they decode to',
                     {'attrs': perm, 'asn4': asn4, 'decoded': got, 'expected': exp}, key='attr-order')
        model_reqs.append(({'op': 'upd.parse', 'asn4': asn4, 'hex': so['hex']}, got, 'Update.parse(permutation)'))

    # ---------------------------------------------------------------- the model on the same concatenations
    mres = driver.batch([q for q, _, _ in model_reqs])
    for (q, io, what), mo in zip(model_reqs, mres):
        if io is None:
            io = I.upd_parse(bytes.fromhex(q['hex']), q.get('asn4', False), q.get('addpath', False))
        if has_unmodelled(mo) or 'error' in mo:
            res.stats.skipped += 1
            continue
        if io != mo:
            res.disagree(what, q, io, mo)
    return res
