"""Suite `hostile` (C10, C11): UPDATE frames built from the repo's own encodings of every attribute / NLRI family
(including the multiprotocol, BGP-LS, Prefix-SID and tunnel families that the Lean model treats as `unmodelled`) and all
their single-octet mutations are delivered to a real session in Established, each followed by a KEEPALIVE.  Oracle on
the implementation (the Monitor of oracles.py plus the checks below): the event returns within the CPU budget, no exception
escapes, an UPDATE never tears the session down, the following KEEPALIVE is still processed."""
import struct

from lib.base import SuiteResult, rng_for
from lib import astscan
from gen import session_gen as SG
import impl_session as S
from suites.session import Pair

MARK = b'\xff' * 16


def attr_codes(body):
    """type codes of the path attributes of an UPDATE body (best effort, independent walker)"""
    try:
        wl = struct.unpack('!H', body[:2])[0]
        al = struct.unpack('!H', body[2 + wl:4 + wl])[0]
        a = body[4 + wl:4 + wl + al]
    except struct.error:
        return []
    out = []
    while len(a) >= 3:
        fl, code = a[0], a[1]
        if fl & 0x10:
            if len(a) < 4:
                break
            ln = struct.unpack('!H', a[2:4])[0]
            a = a[4 + ln:]
        else:
            a = a[3 + a[2]:]
        out.append(code)
    return out


def attr_tlvs(body):
    """(withdrawn-routes part, [attribute TLVs], NLRI tail) of a well-formed UPDATE body; None when it does not split"""
    try:
        wl = struct.unpack('!H', body[:2])[0]
        al = struct.unpack('!H', body[2 + wl:4 + wl])[0]
    except struct.error:
        return None
    a = body[4 + wl:4 + wl + al]
    if len(a) != al:
        return None
    tlvs = []
    while a:
        if len(a) < 3:
            return None
        n = 4 + struct.unpack('!H', a[2:4])[0] if (a[0] & 0x10 and len(a) >= 4) else 3 + a[2]
        if len(a) < n:
            return None
        tlvs.append(a[:n])
        a = a[n:]
    return body[:2 + wl], tlvs, body[4 + wl + al:]


def rebuild(head, tlvs, tail):
    a = b''.join(tlvs)
    return head + struct.pack('!H', len(a)) + a + tail


def sequence_edits(body, r, tier):
    """the same attributes in another arrangement: each one repeated (twice, three times), each one left out, reversed,
    rotated - what one attribute's decoder leaves behind for the next, or expects from an earlier one, is part of the input"""
    sp = attr_tlvs(body)
    if sp is None or not sp[1]:
        return []
    head, tlvs, tail = sp
    out = []
    for i, t in enumerate(tlvs):
        out.append(rebuild(head, tlvs[:i] + [t, t] + tlvs[i + 1:], tail))
        out.append(rebuild(head, tlvs[:i] + tlvs[i + 1:], tail))
        out.append(rebuild(head, [t, t], tail))
        out.append(rebuild(head, [t, t, t], tail))
        out.append(rebuild(head, tlvs + [t], tail))
    if len(tlvs) > 1:
        out.append(rebuild(head, tlvs[::-1], tail))
        out.append(rebuild(head, tlvs[1:] + tlvs[:1], tail))
        out.append(rebuild(head, tlvs + tlvs, tail))
    out = [b for b in dict.fromkeys(out) if len(b) + 19 <= 4096]
    if tier == 'quick' and len(out) > 12:
        out = out[:4] + r.sample(out[4:], 8)
    return out


def run(seed, tier, driver):
    res = SuiteResult('hostile')
    r = rng_for(seed, 'hostile', tier)
    remote_as = S.DEFAULT_CFG['remote_as']
    lits = [b for b in astscan.harvest_byte_literals() if b[:16] == MARK and len(b) > 23 and b[18] == 2 and len(b) <= 4096]
    rich = [b for b in lits if set(attr_codes(b[19:])) & {14, 15, 16, 22, 23, 29, 40}]
    plain = [b for b in lits if b not in rich]
    # attribute values found in the tests, wrapped into an UPDATE under the type code whose decoder accepts them
    import impl_codec as I
    seen = set()
    for v in astscan.harvest_byte_literals():
        if v[:16] == MARK or not (4 <= len(v) <= 3000):
            continue
        for code, flag in ((14, 0x90), (15, 0x90), (29, 0x90), (40, 0xd0), (16, 0xd0), (22, 0xd0), (23, 0xd0)):
            blk = bytes([flag, code]) + struct.pack('!H', len(v)) + v
            body = struct.pack('!H', 0) + struct.pack('!H', len(blk)) + blk
            d = I.upd_parse(body, True, False)
            if d.get('sub_error', 1) is None and (code, v) not in seen:
                seen.add((code, v))
                rich.append(MARK + struct.pack('!HB', len(body) + 19, 2) + body)
    res.stats.hit('update_literals', len(lits))
    res.stats.hit('update_literals_mp_ls_sid', len(rich))
    # group the valid encodings by attribute type and address family / first octets, a few per group
    groups = {}
    for b in rich:
        body = b[19:]
        codes = attr_codes(body)
        wl = struct.unpack('!H', body[:2])[0]
        c0 = codes[0] if codes else -1
        key = (tuple(codes), bytes(body[8 + wl:11 + wl]) if c0 in (14, 15) else (bytes(body[8 + wl:10 + wl]) if c0 in (29, 40) else b''))
        groups.setdefault(key, []).append(b)
    res.stats.hit('groups', len(groups))
    pergroup = 2 if tier == 'quick' else 12
    chosen = []
    for key in sorted(groups, key=lambda k: (k[0], k[1])):
        g = sorted(groups[key], key=len)
        chosen += g[:pergroup]
    cases = []
    for b in chosen + plain[:10]:
        cases.append(('corpus', b))
    per = 3 if tier == 'quick' else 8
    for b in chosen:
        body = b[19:]
        idx = list(range(len(body)))
        if tier == 'quick' and len(idx) > 72:
            idx = list(range(0, 56)) + sorted(r.sample(idx[56:], 16))
        for i in idx:
            vals = [0, 0xff, body[i] ^ 1, (body[i] + 1) & 255, body[i] ^ 0x80, 5, 3, 0x7f]
            vals = [v for v in dict.fromkeys(vals) if v != body[i]]
            for v in vals[:per]:
                m = body[:i] + bytes([v]) + body[i + 1:]
                cases.append(('mutation', MARK + struct.pack('!HB', len(m) + 19, 2) + m))
    nseq = 0
    for b in chosen:
        for m in sequence_edits(b[19:], r, tier):
            cases.append(('sequence', MARK + struct.pack('!HB', len(m) + 19, 2) + m))
            nseq += 1
    res.stats.hit('sequence_edits', nseq)
    if tier == 'quick' and len(cases) > 9000:
        head = [c for c in cases if c[0] in ('corpus', 'sequence')]
        cases = head + r.sample([c for c in cases if c[0] not in ('corpus', 'sequence')], max(0, 9000 - len(head)))
    hangs = 0
    for kind, frame in cases:
        p = Pair({}, driver, res)
        p.step({'k': 'boot'})
        p.step({'k': 'connok', 'c': 0})
        p.step({'k': 'chunk', 'c': 0, 'hex': SG.frame(1, SG.open_body(remote_as, 90, caps=SG.std_caps(remote_as))).hex()})
        p.step({'k': 'chunk', 'c': 0, 'hex': SG.KEEPALIVE.hex()})
        if p.last['state'] != 'ESTABLISHED':
            res.stats.skipped += 1
            continue
        o = p.step({'k': 'chunk', 'c': 0, 'hex': frame.hex()})
        res.stats.case(('hostile', frame.hex()), sample=None)
        res.stats.hit('kind_' + kind)
        if o.get('hang'):
            hangs += 1
            res.fail('C11', 'a decoder reached from dataReceived did not finish within the CPU budget',
                     {'cfg': {}, 'events': list(p.trace)}, key='hang')
            if hangs >= 3:
                break
            continue
        if p.sim.enabled({'k': 'chunk', 'c': 0}):
            p.step({'k': 'chunk', 'c': 0, 'hex': SG.KEEPALIVE.hex()})
        res.stats.hit('after_' + p.last['state'])
    return res
