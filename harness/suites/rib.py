"""Correspondence suite `rib` (lean/Yabgp/Model/Rib.lean vs the RIB / version bookkeeping of yabgp/core/protocol.py,
driven through a real BGP protocol object with CONF.bgp.rib = True, see impl_rib.py) and the C19 property oracle.

Tie: the same history (UPDATEs received as real frames, send requests the way api/v1.py issues them, malformed
UPDATEs, session drops, reconnections, direct calls of the anchored methods) is applied to the implementation and to
the Lean model; after EVERY event all eleven observables are compared (Adj-RIB-In, Adj-RIB-Out, radix tree, both
version dictionaries, the six flowspec / sr / VPN dictionaries).

Oracle: an independent Python dictionary model of THE PROPERTY (class Oracle below; it knows pools and message specs,
never the implementation's tables) is compared after every event with what the implementation reports through
yabgp/api/utils.py (get_peer_version, get_adj_rib_in, get_adj_rib_out) and with the raw IPv4 tables.

Cases: every sequence of <= 5 (thorough) / <= 3 (quick) operations over 3 prefixes and 2 attribute sets
(announce / re-announce with the same or other attributes / withdraw / session drop); every sequence of <= 3 / <= 2
symbols of an extended alphabet (messages that withdraw and announce at once, several prefixes, flowspec and VPNv4
rules on both sides, sr-policy, malformed UPDATEs, RIB maintenance off); seeded random histories of up to 40
operations; seeded random walks of direct method calls."""
import atexit
import itertools
import json
import os
import subprocess
import threading

from lib.base import SuiteResult, rng_for, jdump, LEAN_DIR
import impl_rib as R

SEARCH = True          # check.py: use tier 'search' (random histories only, other seeds) when looking for a failing input
FAMS = ('ipv4', 'flowspec', 'sr_policy', 'mpls_vpn')


# ---------------------------------------------------------------------------------------------- Lean side
class OwnDriver(object):
    """`lake env lean --run Yabgp/Driver/RibMain.lean` behind the same call/batch interface as lib.base.Driver
    (used until the rib.* ops are wired into the shared native driver)"""

    def __init__(self):
        b = subprocess.run(['lake', 'build', 'Yabgp.Driver.RibOps'], cwd=LEAN_DIR, stdout=subprocess.PIPE,
                           stderr=subprocess.STDOUT, text=True)
        if b.returncode != 0:
            raise RuntimeError('lake build Yabgp.Driver.RibOps failed:\n' + b.stdout[-2000:])
        self.p = subprocess.Popen(['lake', 'env', 'lean', '--run', 'Yabgp/Driver/RibMain.lean'], cwd=LEAN_DIR,
                                  stdin=subprocess.PIPE, stdout=subprocess.PIPE, text=True, bufsize=1 << 16)
        self.n = 0

    def call(self, req):
        self.p.stdin.write(json.dumps(req, separators=(',', ':')) + '\n')
        self.p.stdin.flush()
        line = self.p.stdout.readline()
        if not line:
            raise RuntimeError('rib driver died on request %r' % (req,))
        self.n += 1
        return json.loads(line)

    def batch(self, reqs):
        reqs = list(reqs)

        def writer():
            w = self.p.stdin
            for r in reqs:
                w.write(json.dumps(r, separators=(',', ':')) + '\n')
            w.flush()
        t = threading.Thread(target=writer)
        t.start()
        out = []
        for _ in reqs:
            line = self.p.stdout.readline()
            if not line:
                raise RuntimeError('rib driver died in batch')
            out.append(json.loads(line))
        t.join()
        self.n += len(reqs)
        return out

    def close(self):
        try:
            self.p.stdin.close()
            self.p.wait(timeout=10)
        except Exception:
            self.p.kill()


_own = None


def _close_own():
    global _own
    if _own is not None:
        _own.close()
        _own = None


atexit.register(_close_own)


def model_driver(driver):
    """the shared native driver when it already speaks rib.*, else an own subprocess"""
    global _own
    if driver is not None:
        try:
            r = driver.call({'op': 'rib.new', 'rib': True})
            if isinstance(r, dict) and 'error' not in r and 'rib_in' in r:
                return driver
        except Exception:
            pass
    if _own is None or _own.p.poll() is not None:
        _own = OwnDriver()
    return _own


# ---------------------------------------------------------------------------------------------- the property
class Oracle(object):
    """THE PROPERTY as a plain dictionary model, written without looking at /repo's tables.
    A route's attributes are the attribute dictionary of the UPDATE that announced it (for a flowspec / VPN / sr
    route: without the list of announced routes itself; a VPN route's label counts as one of its attributes).
    An IPv4 UPDATE is applied withdrawals first, then announcements; MP_REACH before MP_UNREACH.  A counter
    grows by one for a new route, for changed attributes and for the removal of a present route - never otherwise.
    A dropped session empties the IPv4 tables; a new session starts from nothing."""

    def __init__(self, rib):
        self.rib = rib
        self.fresh()

    def fresh(self):
        self.rib_in = {}
        self.rib_out = {}
        self.mp = {}
        self.ver = {'recv': dict.fromkeys(FAMS, 0), 'send': dict.fromkeys(FAMS, 0)}

    def drop(self):
        self.rib_in = {}
        self.rib_out = {}

    def _announce(self, table, counters, fam, key, attrs):
        if table.get(key) != attrs:
            counters[fam] += 1
        table[key] = attrs

    def _withdraw(self, table, counters, fam, key):
        if key in table:
            counters[fam] += 1
            del table[key]

    def update(self, side, spec, attr_text, mp_attr_text):
        """side 'recv' | 'send'; attr_text: canonical text of the UPDATE's attribute dictionary; mp_attr_text: the
        same without the announced MP routes"""
        cnt = self.ver[side]
        if self.rib:
            t = self.rib_in if side == 'recv' else self.rib_out
            for i in spec.get('w', []):
                self._withdraw(t, cnt, 'ipv4', R.PREFIXES[i])
            for i in spec.get('n', []):
                self._announce(t, cnt, 'ipv4', R.PREFIXES[i], attr_text)
        r, u = spec.get('r'), spec.get('u')
        if r:
            if r[0] == 'fs':
                for i in r[1]:
                    self._announce(self.mp.setdefault((side, 'flowspec'), {}), cnt, 'flowspec', i, mp_attr_text)
            elif r[0] == 'vpn':
                for i, li in r[1]:
                    self._announce(self.mp.setdefault((side, 'mpls_vpn'), {}), cnt, 'mpls_vpn', i, (mp_attr_text, li))
            elif r[0] == 'sr' and side == 'send':       # received sr-policy routes are not kept (only logged)
                self._announce(self.mp.setdefault((side, 'sr_policy'), {}), cnt, 'sr_policy', r[1], attr_text)
        if u:
            if u[0] == 'fs':
                for i in u[1]:
                    self._withdraw(self.mp.setdefault((side, 'flowspec'), {}), cnt, 'flowspec', i)
            elif u[0] == 'vpn':
                for i, _ in u[1]:
                    self._withdraw(self.mp.setdefault((side, 'mpls_vpn'), {}), cnt, 'mpls_vpn', i)
            elif u[0] == 'sr' and side == 'send':
                self._withdraw(self.mp.setdefault((side, 'sr_policy'), {}), cnt, 'sr_policy', u[1])

    def check(self, res, real, case):
        pub = real.public()
        for side, key in (('recv', 'recv_ver'), ('send', 'send_ver')):
            for fam in FAMS:
                if pub[key].get(fam) != self.ver[side][fam]:
                    word = 'received' if side == 'recv' else 'sent'
                    res.fail('C19', '%s %s version counter is %s after a history whose table changes number %s'
                             % (word, fam, pub[key].get(fam), self.ver[side][fam]),
                             dict(case, got=pub[key], expected=self.ver[side]), key='%s-version-%s' % (side, fam))
                    return False
        if pub['raw_rib_in'] != self.rib_in:
            res.fail('C19', 'Adj-RIB-In differs from the in-order application of the UPDATEs received',
                     dict(case, got=pub['raw_rib_in'], expected=self.rib_in), key='adj-rib-in')
            return False
        if pub['raw_rib_out'] != self.rib_out:
            res.fail('C19', 'Adj-RIB-Out differs from the in-order application of the UPDATEs sent',
                     dict(case, got=pub['raw_rib_out'], expected=self.rib_out), key='adj-rib-out')
            return False
        # the REST accessors must show the same tables; the Adj-RIB-In accessor answers with the entry itself when it is
        # present and otherwise with the longest prefix of the table that covers the one asked for
        def lookup(p):
            if p in self.rib_in:
                return self.rib_in[p]
            import ipaddress
            net = ipaddress.ip_network(p)
            best = None
            for q in self.rib_in:
                qn = ipaddress.ip_network(q)
                if net.subnet_of(qn) and (best is None or qn.prefixlen > ipaddress.ip_network(best).prefixlen):
                    best = q
            return self.rib_in[best] if best is not None else None
        if pub['rib_in'] is None or any(pub['rib_in'].get(p) != lookup(p) for p in R.PREFIXES):
            res.fail('C19', 'get_adj_rib_in does not show the Adj-RIB-In',
                     dict(case, got=pub['rib_in'], expected=self.rib_in), key='adj-rib-in-lookup')
            return False
        if pub['rib_out'] is None or any(pub['rib_out'].get(p) != self.rib_out.get(p) for p in R.PREFIXES):
            res.fail('C19', 'get_adj_rib_out does not show the Adj-RIB-Out',
                     dict(case, got=pub['rib_out'], expected=self.rib_out), key='adj-rib-out-lookup')
            return False
        return True


# ---------------------------------------------------------------------------------------------- one history
def strip_mp(attr):
    a = {k: (dict(v) if isinstance(v, dict) else v) for k, v in attr.items()}
    if 14 in a and isinstance(a[14], dict):
        a[14] = {k: v for k, v in a[14].items() if k != 'nlri'}
    return a


class HandlerDown(Exception):
    pass


class Case(object):
    """runs one history on the implementation, checks the oracle on the way, and records the model requests
    together with the implementation's observations for the comparison with the Lean model"""

    def __init__(self, res, rib, ids, oracle=True, fault=False, ibgp=False):
        self.res = res
        self.rib = rib
        self.ibgp = bool(ibgp)
        self.real = R.RealRib(rib, ids, ibgp=ibgp)
        self.fault = bool(fault)
        if fault:
            # the application's handler fails in its update callback (a collector that is down, a log file that was
            # removed under it ...): yabgp catches and logs that; the tables and counters must track the UPDATEs all the same
            h = self.real.sim.handler
            orig = h.update_received

            def faulty(*a, _orig=orig, **kw):
                _orig(*a, **kw)
                raise HandlerDown('handler down')
            h.update_received = faulty
        self.ids = ids
        self.oracle = Oracle(rib) if oracle else None
        self.oracle_ok = True
        self.reqs = [{'op': 'rib.new', 'rib': bool(rib)}]
        self.obs = [None]
        self.events = []
        self.skipped = None

    def _record(self, ev, model_ev=None, call=None):
        self.events.append(ev)
        if call is not None:
            self.reqs.append(call)
        else:
            self.reqs.append({'op': 'rib.ev', 'ev': model_ev})
        self.obs.append(self.real.observe())
        if self.real.problem and not self.skipped:
            self.skipped = self.real.problem
        if self.real.trouble:
            self.res.fail('C19', 'the RIB / version bookkeeping raised or disturbed the session: %s' % self.real.trouble,
                          {'rib': self.rib, 'fault': self.fault, 'ibgp': self.ibgp, 'events': list(self.events)}, key='bookkeeping-exception')
            self.real.trouble = None
        if self.oracle is not None and self.oracle_ok and not self.skipped:
            self.oracle_ok = self.oracle.check(self.res, self.real, {'rib': self.rib, 'fault': self.fault, 'ibgp': self.ibgp, 'events': list(self.events)})

    def apply(self, ev):
        k = ev['k']
        real = self.real
        if k == 'connect':
            real.connect()
            if self.oracle:
                self.oracle.fresh()
            self._record(ev, {'k': 'connect'})
        elif k == 'lost':
            real.lost()
            if self.oracle:
                self.oracle.drop()
            self._record(ev, {'k': 'lost'})
        elif k == 'recv_bad':
            cb = real.recv(R.BAD_UPDATE)
            if cb != ['update_error']:
                self.skipped = 'malformed UPDATE was not reported as such: %r' % (cb,)
            self._record(ev, {'k': 'recv_bad'})
        elif k == 'recv':
            frame, intended = R.recv_message(ev['m'])
            dec = R.decode(frame)
            if dec is None or (intended is not None and R.canon(dec) != R.canon(intended)):
                if intended is not None and not ev['m'].get('r') and not ev['m'].get('u'):
                    # a plain IPv4 UPDATE (prefixes + standard attributes, the value space of C06): the tables must follow
                    # the UPDATE that was SENT, whatever the decoder makes of it
                    dec = intended
                else:
                    # the codec does not carry this multiprotocol message faithfully (C07 territory, with its recorded
                    # findings): not a C19 case
                    self.skipped = 'pool message does not survive the codec: %s' % jdump(ev['m'])
                    return
            cb = real.recv(frame)
            if cb != ['update'] and not real.trouble:
                # _update_received did not reach handler.update_received: the bookkeeping in front of it raised
                real.trouble = 'a well-formed UPDATE was not delivered to the handler (callbacks: %r)' % (cb,)
            if self.oracle:
                self.oracle.update('recv', ev['m'], R.canon(dec['attr']), R.canon(strip_mp(dec['attr'])))
            self._record(ev, {'k': 'recv', 'msg': R.model_msg(dec, self.ids)})
        elif k == 'send':
            pm, constructible = R.send_message(ev['m'])
            real.send(pm, constructible)
            if real.last_eff_attr is not None and real.last_eff_attr != pm['attr']:
                pm = dict(pm, attr=real.last_eff_attr)
            mm = R.model_msg(pm, self.ids)
            a_text, mp_text = R.canon(pm['attr']), R.canon(strip_mp(pm['attr']))
            if self.oracle:
                self.oracle.update('send', ev['m'], a_text, mp_text)
            self._record(ev, {'k': 'send', 'msg': mm})
        elif k == 'call':
            # one anchored method directly on the protocol object
            fn = ev['fn']
            if fn == 'init_rib':
                real.call('init_rib')
                self._record(ev, call={'op': 'rib.call', 'fn': fn})
                return
            if ev['side'] == 'recv':
                frame, _ = R.recv_message(ev['m'])
                pm = R.decode(frame)
                if pm is None:
                    self.skipped = 'pool message does not decode'
                    return
            else:
                pm, _ = R.send_message(ev['m'])
            mm = R.model_msg(pm, self.ids)
            if fn in ('update_rib_in_ipv4', 'update_rib_out_ipv4'):
                ok = real.call(fn, {'attr': pm['attr'], 'nlri': pm['nlri'], 'withdraw': pm['withdraw'], 'afi_safi': 'ipv4'})
                if ok is not True and not real.trouble:
                    real.trouble = '%s returned %r' % (fn, ok)
            elif fn == 'update_receive_verion':
                real.call(fn, pm['attr'], pm['nlri'], pm['withdraw'])
            else:
                real.call(fn, '10.0.0.2', pm['attr'], pm['nlri'], pm['withdraw'])
            self._record(ev, call={'op': 'rib.call', 'fn': fn, 'msg': mm})
        else:
            raise KeyError(k)


class Runner(object):
    """collects cases and compares them with the model in batches"""

    def __init__(self, res, driver, flush_at=20000):
        self.res = res
        self.driver = driver
        self.ids = R.Intern()
        self.pending = []
        self.n_req = 0
        self.flush_at = flush_at

    def run(self, rib, events, oracle=True, tag='', sample=False, fault=False, ibgp=False):
        c = Case(self.res, rib, self.ids, oracle, fault, ibgp)
        c.apply({'k': 'connect'})
        for ev in events:
            if c.skipped:
                break
            c.apply(ev)
        if c.skipped:
            self.res.stats.skipped += 1
            self.res.stats.hit('skipped')
            if len(self.res.notes) < 10:
                self.res.notes.append(c.skipped)
            return c
        key = (tag, rib, jdump(events))
        self.res.stats.case(key, nontrivial=bool(events),
                            sample={'rib': rib, 'events': events, 'final': c.obs[-1]} if sample else None)
        self.pending.append(c)
        self.n_req += len(c.reqs)
        if self.n_req >= self.flush_at:
            self.flush()
        return c

    def flush(self):
        if not self.pending:
            return
        reqs = [r for c in self.pending for r in c.reqs]
        out = self.driver.batch(reqs)
        i = 0
        for c in self.pending:
            mo = out[i:i + len(c.reqs)]
            i += len(c.reqs)
            for j in range(1, len(c.reqs)):
                io = c.obs[j]
                m = mo[j]
                if io.get('tree') is None and isinstance(m, dict):
                    m = dict(m, tree=None)
                if io != m:
                    self.res.disagree('rib step %d (%s)' % (j - 1, c.reqs[j].get('op')),
                                      {'rib': c.rib, 'fault': c.fault, 'ibgp': c.ibgp, 'events': c.events[:j],
                                       'ids': {str(x): self.ids.name(x) for x in _ids_in(io, m)}}, io, m)
                    break
        self.pending = []
        self.n_req = 0


def _ids_in(*vals):
    out = set()

    def walk(v):
        if isinstance(v, dict):
            for k, x in v.items():
                if k not in ('recv_ver', 'send_ver'):
                    walk(x)
        elif isinstance(v, list):
            for x in v:
                walk(x)
        elif isinstance(v, int) and not isinstance(v, bool):
            out.add(v)
    for v in vals:
        walk(v)
    return sorted(out)[:40]


# ---------------------------------------------------------------------------------------------- alphabets
def basic_alphabet():
    """announce / re-announce (same or other attributes) / withdraw over 3 prefixes, and the session drop"""
    al = []
    for i in range(3):
        al.append([{'k': 'recv', 'm': {'a': 0, 'n': [i], 'w': []}}])
        al.append([{'k': 'recv', 'm': {'a': 1, 'n': [i], 'w': []}}])
        al.append([{'k': 'recv', 'm': {'a': None, 'n': [], 'w': [i]}}])
    al.append([{'k': 'lost'}, {'k': 'connect'}])
    return al


def extended_alphabet():
    rv = lambda **m: [{'k': 'recv', 'm': dict({'a': 0, 'n': [], 'w': []}, **m)}]      # noqa: E731
    sd = lambda **m: [{'k': 'send', 'm': dict({'a': 0, 'n': [], 'w': []}, **m)}]      # noqa: E731
    al = [
        rv(n=[0]), rv(a=1, n=[0]), rv(a=None, w=[0]),
        rv(n=[0], w=[0]),                      # withdrawn and announced by the same UPDATE
        rv(n=[0, 1, 0]), rv(a=None, w=[0, 1, 0]), rv(a=2, n=[2], w=[0, 1]),
        [{'k': 'recv_bad'}],
        rv(r=['fs', [0]]), rv(a=1, r=['fs', [0]]), rv(a=None, u=['fs', [0]]), rv(r=['fs', [0, 1]], u=['fs', [1, 2]]),
        rv(r=['vpn', [[0, 0]]]), rv(r=['vpn', [[0, 1]]]), rv(a=None, u=['vpn', [[0, None]]]),
        rv(r=['vpn', [[0, 0], [1, 0]]], u=['fs', [0]]), rv(n=[1], r=['fs', [0]]),
        rv(r=['sr', 0]), rv(r=['other'], u=['sr', 0]),
        sd(n=[0]), sd(a=1, n=[0]), sd(a=None, w=[0]), sd(n=[0, 1], w=[0]),
        sd(r=['fs', [0]]), sd(a=1, r=['fs', [0]]), sd(a=None, u=['fs', [0]]),
        sd(r=['vpn', [[0, 0]]]), sd(r=['vpn', [[0, 1]]]), sd(a=None, u=['vpn', [[0, None]]]), sd(a=None, u=['vpn', [[0, 0]]]),
        sd(r=['sr', 0]), sd(a=1, r=['sr', 0]), sd(a=None, u=['sr', 0]), sd(r=['other'], u=['other']),
        [{'k': 'lost'}, {'k': 'connect'}],
    ]
    return al


def rnd_spec(r, side):
    m = {'a': r.randrange(4), 'n': [], 'w': []}
    shape = r.random()
    if shape < 0.55:
        npfx = len(R.PREFIXES)
        m['n'] = [r.randrange(npfx) for _ in range(r.choice([0, 1, 1, 1, 2, 3]))]
        m['w'] = [r.randrange(npfx) for _ in range(r.choice([0, 0, 0, 1, 1, 2]))]
        if not m['n']:
            if not m['w']:
                m['w'] = [r.randrange(npfx)]
            if r.random() < 0.8:
                m['a'] = None
    if shape >= 0.45:
        fam = r.choice(['fs', 'fs', 'vpn', 'vpn', 'sr', 'other'])
        both = r.random()
        if both < 0.6 or both > 0.9:
            if fam == 'fs':
                m['r'] = ['fs', [r.randrange(3) for _ in range(r.choice([1, 1, 2, 3]))]]
            elif fam == 'vpn':
                m['r'] = ['vpn', [[r.randrange(3), r.randrange(2)] for _ in range(r.choice([1, 1, 2, 3]))]]
            elif fam == 'sr':
                m['r'] = ['sr', r.randrange(2)]
            else:
                m['r'] = ['other']
        if both >= 0.6:
            fam2 = fam if r.random() < 0.7 else r.choice(['fs', 'vpn', 'sr', 'other'])
            if fam2 == 'fs':
                m['u'] = ['fs', [r.randrange(3) for _ in range(r.choice([1, 1, 2]))]]
            elif fam2 == 'vpn':
                m['u'] = ['vpn', [[r.randrange(3), r.choice([None, 0, 1]) if side == 'send' else None]
                                  for _ in range(r.choice([1, 1, 2]))]]
            elif fam2 == 'sr':
                m['u'] = ['sr', r.randrange(2)]
            else:
                m['u'] = ['other']
            if 'r' not in m and not m['n'] and r.random() < 0.6:
                m['a'] = None
    if side == 'recv' and (4 in m['n'] or 4 in m['w']) and r.random() < 0.5:
        m['dirty'] = True   # the /15 prefix arrives with a non-zero trailing bit
    if side == 'send' and (m.get('r', [''])[0] == 'fs' or m.get('u', [''])[0] == 'fs') and r.random() < 0.4:
        m['rev'] = True     # the same flowspec rules, their JSON members written in the opposite order
    if m['a'] is None and (m['n'] or 'r' in m):
        m['a'] = 0          # announcements come with path attributes
    return m


def rnd_history(r, length):
    evs = []
    connected = True
    for _ in range(length):
        if not connected:
            evs.append({'k': 'connect'})
            connected = True
            continue
        x = r.random()
        if x < 0.55:
            evs.append({'k': 'recv', 'm': rnd_spec(r, 'recv')})
        elif x < 0.85:
            evs.append({'k': 'send', 'm': rnd_spec(r, 'send')})
        elif x < 0.90:
            evs.append({'k': 'recv_bad'})
        else:
            evs.append({'k': 'lost'})
            connected = False
    return evs


def rnd_direct(r, length):
    evs = []
    for _ in range(length):
        x = r.random()
        if x < 0.08:
            evs.append({'k': 'call', 'fn': 'init_rib'})
        elif x < 0.3:
            evs.append({'k': 'call', 'fn': 'update_rib_in_ipv4', 'side': 'recv', 'm': rnd_spec(r, 'recv')})
        elif x < 0.5:
            evs.append({'k': 'call', 'fn': 'update_rib_out_ipv4', 'side': 'send', 'm': rnd_spec(r, 'send')})
        elif x < 0.75:
            evs.append({'k': 'call', 'fn': 'update_receive_verion', 'side': 'recv', 'm': rnd_spec(r, 'recv')})
        else:
            evs.append({'k': 'call', 'fn': 'update_send_version', 'side': 'send', 'm': rnd_spec(r, 'send')})
    return evs


def flat(symbols):
    return [e for s in symbols for e in s]


# ---------------------------------------------------------------------------------------------- entry points
def run(seed, tier, driver):
    res = SuiteResult('rib')
    r = rng_for(seed, 'rib', tier)
    md = model_driver(driver)
    res.notes.append('model side: %s' % ('shared native driver' if md is driver else 'own process (lake env lean --run Yabgp/Driver/RibMain.lean)'))
    run_ = Runner(res, md)
    if tier != 'search':
        # (a) exhaustive small scope: all sequences over the basic alphabet
        basic = basic_alphabet()
        depth = 5 if tier == 'thorough' else 3
        n = 0
        for d in range(0, depth + 1):
            for seq in itertools.product(range(len(basic)), repeat=d):
                run_.run(True, flat(basic[i] for i in seq), tag='basic', sample=(n % 997 == 5))
                n += 1
        res.stats.hit('exhaustive_basic_sequences', n)
        res.stats.hit('exhaustive_basic_depth', depth)
        if tier == 'quick':
            # a bounded part of the depth 4-5 space
            for _ in range(1200):
                d = r.choice([4, 5])
                run_.run(True, flat(basic[r.randrange(len(basic))] for _ in range(d)), tag='basic')
                n += 1
            res.stats.hit('sampled_basic_depth_4_5', 1200)
        # (b) exhaustive over the extended alphabet (both directions, MP families, malformed, drop)
        ext = extended_alphabet()
        depth = 3 if tier == 'thorough' else 2
        n = 0
        for d in range(1, depth + 1):
            for seq in itertools.product(range(len(ext)), repeat=d):
                run_.run(True, flat(ext[i] for i in seq), tag='ext', sample=(n % 499 == 7))
                n += 1
        res.stats.hit('exhaustive_extended_sequences', n)
        # RIB maintenance switched off: IPv4 tables and counters must not move at all
        for seq in itertools.product(range(len(ext)), repeat=1 if tier == 'quick' else 2):
            run_.run(False, flat(ext[i] for i in seq), tag='ext-norib')
    # (c) seeded random histories up to 40 operations, session drops included
    n_rand = {'quick': 1000, 'thorough': 20000, 'search': 1500}[tier]
    for i in range(n_rand):
        rib = r.random() < 0.9
        evs = rnd_history(r, r.choice([5, 10, 20, 40, 40]))
        fault = i % 8 == 3
        if fault:
            res.stats.hit('histories_with_failing_handler')
        ibgp = i % 5 == 1
        if ibgp:
            res.stats.hit('histories_on_an_ibgp_session')
        c = run_.run(rib, evs, tag=('rnd-fault' if fault else 'rnd') + ('-ibgp' if ibgp else ''), sample=(i < 2), fault=fault, ibgp=ibgp)
        for e in c.events:
            res.stats.hit('event_' + e['k'])
    # (d) the anchored methods called directly on the protocol object (tie only)
    n_dir = {'quick': 150, 'thorough': 5000, 'search': 0}[tier]
    for i in range(n_dir):
        run_.run(r.random() < 0.8, rnd_direct(r, r.choice([5, 10, 30])), oracle=False, tag='direct')
    res.stats.hit('direct_call_walks', n_dir)
    run_.flush()
    res.exhaustive = tier != 'search'
    return res


def _replay_cases(cases, driver, name):
    res = SuiteResult(name)
    run_ = Runner(res, model_driver(driver))
    for c in cases:
        has_call = any(e.get('k') == 'call' for e in c['events'])
        evs = list(c['events'])
        if evs and evs[0].get('k') == 'connect':
            evs = evs[1:]
        run_.run(bool(c.get('rib', True)), evs, oracle=not has_call, tag='replay', sample=True, fault=bool(c.get('fault')), ibgp=bool(c.get('ibgp')))
    run_.flush()
    return res


def replay(path, driver):
    """re-runs the failing inputs / disagreements of a replay file written by check.py"""
    d = json.load(open(path))
    cases = []
    for f in d.get('failures', []):
        rp = f.get('replay', {})
        if 'events' in rp:
            cases.append({'rib': rp.get('rib', True), 'fault': rp.get('fault'), 'ibgp': rp.get('ibgp'), 'events': rp['events']})
    for dis in d.get('disagreements', []) + [x for s in d.get('broken_correspondence', []) for x in s.get('disagreements', [])]:
        cs = dis.get('case', {})
        if 'events' in cs:
            cases.append({'rib': cs.get('rib', True), 'fault': cs.get('fault'), 'ibgp': cs.get('ibgp'), 'events': cs['events']})
    if 'events' in d:
        cases.append({'rib': d.get('rib', True), 'events': d['events']})
    return _replay_cases(cases, driver, 'rib-replay')


def replay_witness(wit, driver):
    """replays the recorded history of a known finding on the implementation (and the model)"""
    return _replay_cases([{'rib': wit.get('rib', True), 'events': wit['events']}], driver, 'rib-witness')


# shortest histories on which the UNREPAIRED code violates C19 (kept for the report and for known_findings.json)
WITNESSES = {
    'recv-version-flowspec': {'suite': 'rib', 'rib': True,
                              'events': [{'k': 'recv', 'm': {'a': 0, 'n': [], 'w': [], 'r': ['fs', [0]]}}]},
    'recv-version-mpls_vpn': {'suite': 'rib', 'rib': True,
                              'events': [{'k': 'recv', 'm': {'a': 0, 'n': [], 'w': [], 'r': ['vpn', [[0, 0]]]}}]},
    'send-version-mpls_vpn': {'suite': 'rib', 'rib': True,
                              'events': [{'k': 'send', 'm': {'a': 0, 'n': [], 'w': [], 'r': ['vpn', [[0, 0]]]}},
                                         {'k': 'send', 'm': {'a': None, 'n': [], 'w': [], 'u': ['vpn', [[0, None]]]}}]},
}
