"""Suite `framing` (C04): streams of valid and invalid messages delivered to an open session under many
segmentations.  (1) correspondence: model and implementation agree after every chunk; (2) property oracle on
the implementation: the concatenated outputs and the final state do not depend on the segmentation, framing
violations are answered with NOTIFICATION(1, sub) + close, every chunk is handled within the CPU budget."""
import itertools
import struct

from lib.base import SuiteResult, rng_for, jdump
from gen import session_gen as SG
import impl_session as S
from suites.session import Pair

CONF = {}
MARK = b'\xff' * 16


def ref_deframe(stream):
    """independent RFC 4271 deframer: list of ('msg', type, body) ending with ('err', sub) / ('incomplete',)"""
    out = []
    b = stream
    while True:
        if len(b) < 19:
            out.append(('incomplete',))
            return out
        if b[:16] != MARK:
            out.append(('err', 1))
            return out
        ln = struct.unpack('!H', b[16:18])[0]
        if ln < 19 or ln > 4096:
            out.append(('err', 2))
            return out
        if len(b) < ln:
            out.append(('incomplete',))
            return out
        ty = b[18]
        if ty not in (1, 2, 3, 4, 5, 128):
            out.append(('err', 3))
            return out
        out.append(('msg', ty, b[19:ln]))
        b = b[ln:]


def to_state(pair, target, remote_as):
    pair.step({'k': 'boot'})
    pair.step({'k': 'connok', 'c': 0})
    if target in ('OPENCONFIRM', 'ESTABLISHED'):
        pair.step({'k': 'chunk', 'c': 0, 'hex': SG.frame(1, SG.open_body(remote_as, 90, caps=SG.std_caps(remote_as))).hex()})
    if target == 'ESTABLISHED':
        pair.step({'k': 'chunk', 'c': 0, 'hex': SG.KEEPALIVE.hex()})


def segmentations(r, n, tier):
    """cut position lists for a stream of n octets"""
    segs = [[]]
    if n <= 1:
        return segs
    if n <= 64:
        segs += [[i] for i in range(1, n)]
        if n <= 40 or tier != 'quick':
            segs += [[i, j] for i in range(1, n) for j in range(i + 1, n)][:: (1 if tier != 'quick' else 7)]
    else:
        pts = sorted(set([1, 2, 15, 16, 17, 18, 19, 20, n - 1, n - 2, n // 2] + [r.randrange(1, n) for _ in range(6)]))
        pts = [p for p in pts if 0 < p < n]
        segs += [[p] for p in pts]
        segs += [[a, b] for a, b in itertools.combinations(pts, 2)][:: 3]
    segs.append(list(range(1, n)) if n <= 200 else sorted(r.sample(range(1, n), 60)))   # byte at a time
    for _ in range(4):
        k = r.randint(1, min(8, n - 1))
        segs.append(sorted(r.sample(range(1, n), k)))
    return segs


def cut(stream, cuts):
    out = []
    prev = 0
    for c in cuts:
        out.append(stream[prev:c])
        prev = c
    out.append(stream[prev:])
    return [x for x in out if x]


def streams(r, tier, remote_as):
    pool = dict(SG.message_pool(remote_as))
    ks = ['keepalive', 'update_ok', 'rr', 'notif_cease', 'update_bad_origin', 'keepalive_body', 'bad_marker',
          'bad_len0', 'bad_len18', 'bad_len4097', 'bad_type0', 'bad_type255', 'open_ok', 'update_short', 'rr_bad']
    out = []
    for k in ks:
        out.append((k, pool[k]))
    # two and three messages per stream, including a close-causing one followed by more traffic
    combos = [('keepalive', 'keepalive'), ('update_ok', 'keepalive'), ('notif_cease', 'keepalive'),
              ('bad_type6', 'keepalive'), ('keepalive', 'bad_marker'), ('keepalive', 'bad_len0', 'keepalive'),
              ('update_bad_origin', 'update_ok', 'keepalive'), ('rr', 'bad_len4097'), ('bad_type0', 'bad_marker'),
              ('notif_version', 'bad_len18'), ('keepalive_body', 'keepalive'), ('open_ok', 'keepalive')]
    for cb in combos:
        out.append(('+'.join(cb), b''.join(pool[k] for k in cb)))
    # truncated tails
    for k in ('update_ok', 'keepalive'):
        for n in (1, 15, 16, 17, 18):
            out.append((k + '_trunc%d' % n, pool['keepalive'] + pool[k][:n]))
    # every position of a corrupt marker
    for pos in range(16):
        b = bytearray(SG.KEEPALIVE)
        b[pos] = 0x7f
        out.append(('marker_pos%d' % pos, bytes(b)))
    return out


def header_only(length, ty, pad):
    return MARK + struct.pack('!HB', length, ty) + b'\x00' * pad


def run(seed, tier, driver):
    res = SuiteResult('framing')
    r = rng_for(seed, 'framing', tier)
    remote_as = S.DEFAULT_CFG['remote_as']

    def play(state, chunks):
        p = Pair(CONF, driver, res)
        to_state(p, state, remote_as)
        outs = []
        hang = False
        for ch in chunks:
            if not p.sim.enabled({'k': 'chunk', 'c': 0}):
                break
            o = p.step({'k': 'chunk', 'c': 0, 'hex': ch.hex()})
            outs += o['outs']
            if o.get('hang') or o.get('escaped'):
                hang = True
        final = p.sim.observe()
        return p, outs, {'state': final['state'], 'timers': final['timers'], 'stats': final['stats'],
                         'conns': final['conns']}, hang

    def check_reaction(label, stream, state, outs, final):
        """framing violations: NOTIFICATION(1, sub) then close, state IDLE"""
        items = ref_deframe(stream)
        # the reference items up to the first one that ends the session are not needed here: only the case
        # where the FIRST item is a framing error is checked exactly (later ones depend on the FSM reaction)
        if items and items[0][0] == 'err':
            sub = items[0][1]
            ws = [o for o in outs if o[0] == 'write']
            ok = (len(ws) == 1 and bytes.fromhex(ws[0][2])[18] == 3 and bytes.fromhex(ws[0][2])[19] == 1
                  and bytes.fromhex(ws[0][2])[20] == sub and ['lose', 0] in outs and final['state'] == 'IDLE')
            if not ok:
                res.fail('C04', 'framing violation not answered with NOTIFICATION(1,%d) + close' % sub,
                         {'state': state, 'stream': stream.hex(), 'outs': outs, 'final': final},
                         key='framing-reaction')
        # a message whose length contradicts its type (RFC 4271 6.1: KEEPALIVE other than 19 octets, OPEN below 29): Bad
        # Message Length, like a length outside 19..4096
        if items and items[0][0] == 'msg' and ((items[0][1] == 4 and items[0][2]) or (items[0][1] == 1 and len(items[0][2]) < 10)):
            ws = [o for o in outs if o[0] == 'write']
            ok = (len(ws) == 1 and bytes.fromhex(ws[0][2])[18:21] == b'\x03\x01\x02' and ['lose', 0] in outs and final['state'] == 'IDLE')
            if not ok:
                res.fail('C04', 'a %s whose length contradicts its type was not answered with NOTIFICATION(1,2) + close' % (
                    'KEEPALIVE' if items[0][1] == 4 else 'OPEN'),
                         {'state': state, 'stream': stream.hex(), 'outs': outs[:4], 'final': final}, key='framing-reaction')
        # the converse: a stream in which the reference deframer finds no framing violation (and no message whose own
        # length contradicts its type: a KEEPALIVE with a body, an OPEN shorter than its fixed part) must not be answered
        # with a Message Header Error - every message of it was extracted
        legit = any(it[0] == 'err' for it in items) or \
            any(it[0] == 'msg' and ((it[1] == 4 and it[2]) or (it[1] == 1 and len(it[2]) < 10)) for it in items)
        if not legit:
            for o in outs:
                if o[0] == 'write':
                    w = bytes.fromhex(o[2])
                    if w[18] == 3 and w[19] == 1:
                        res.fail('C04', 'a stream without framing violation was answered with Message Header Error (1,%d): '
                                        'a well-framed message was not extracted' % w[20],
                                 {'state': state, 'stream': stream.hex() if len(stream) < 600 else stream[:64].hex() + '...(%d octets)' % len(stream),
                                  'outs': outs[:4]}, key='framing-false-violation')
                        break

    # ---- streams x segmentations
    sts = streams(r, tier, remote_as)
    states = ['ESTABLISHED'] if tier == 'quick' else ['ESTABLISHED', 'OPENCONFIRM', 'OPENSENT']
    for label, stream in sts:
        for state in states:
            base = None
            segs = segmentations(r, len(stream), tier)
            if tier == 'quick' and len(segs) > 60:
                segs = segs[:20] + r.sample(segs[20:], 40)
            for cuts in segs:
                p, outs, final, hang = play(state, cut(stream, cuts))
                res.stats.case(('seg', state, stream.hex(), tuple(cuts)), nontrivial=True,
                               sample={'state': state, 'stream': label, 'cuts': cuts, 'outs': outs[:3]})
                res.stats.hit('stream_' + label.split('_')[0].split('+')[0])
                if hang:
                    res.fail('C04', 'handling of a chunk did not finish in bounded time / raised',
                             {'state': state, 'stream': stream.hex(), 'cuts': cuts}, key='framing-hang')
                if base is None:
                    base = (outs, final, cuts)
                    check_reaction(label, stream, state, outs, final)
                elif (outs, final) != (base[0], base[1]):
                    res.fail('C04', 'reaction depends on the TCP segmentation',
                             {'state': state, 'stream': stream.hex(), 'cuts_a': base[2], 'outs_a': base[0],
                              'final_a': base[1], 'cuts_b': cuts, 'outs_b': outs, 'final_b': final},
                             key='framing-segmentation')

    # ---- the peer's OPEN in its variants (capabilities naming families / values the agent knows or does not know), followed by
    # more traffic, delivered while the agent waits for it (OpenSent): extraction, reaction and termination as for any stream
    pool = dict(SG.message_pool(remote_as))
    for combo in (('open_ok', 'keepalive', 'update_ok'), ('open_nocaps', 'keepalive'), ('open_addpath_ipv4', 'keepalive'),
                  ('open_addpath_unknown_family', 'keepalive'), ('open_addpath_action0', 'keepalive', 'update_ok'),
                  ('open_llgr_extnh_unknown', 'keepalive'), ('open_hold3', 'keepalive'), ('open_as4_only_in_cap', 'keepalive')):
        stream = b''.join(pool[k] for k in combo)
        base = None
        segs = [[], list(range(1, len(stream))), [19], [29], [len(pool[combo[0]])], [len(pool[combo[0]]) - 1]] + \
            [sorted(r.sample(range(1, len(stream)), k)) for k in (2, 4)]
        for cuts in segs:
            p, outs, final, hang = play('OPENSENT', cut(stream, cuts))
            res.stats.case(('seg', 'OPENSENT', stream.hex(), tuple(cuts)), nontrivial=True, sample=None)
            res.stats.hit('stream_opensent')
            if hang:
                res.fail('C04', 'handling of a chunk did not finish in bounded time / raised',
                         {'state': 'OPENSENT', 'stream': stream.hex(), 'cuts': cuts}, key='framing-hang')
                break
            if base is None:
                base = (outs, final, cuts)
                check_reaction('+'.join(combo), stream, 'OPENSENT', outs, final)
            elif (outs, final) != (base[0], base[1]):
                res.fail('C04', 'reaction depends on the TCP segmentation',
                         {'state': 'OPENSENT', 'stream': stream.hex(), 'cuts_a': base[2], 'outs_a': base[0],
                          'final_a': base[1], 'cuts_b': cuts, 'outs_b': outs, 'final_b': final}, key='framing-segmentation')
                break
    # ---- bursts: many well-formed messages in one segment, more than a maximum-size message's worth of octets
    for label, stream in (('burst_small', (pool['update_ok'] + pool['keepalive'] + pool['update_withdraw']) * 45),
                          ('burst_max', pool['update_max4096'] + pool['keepalive'] + pool['update_max4096'] + pool['update_ok']),
                          # more than a thousand complete messages in one segment (a 64 kB read can hold 3400 KEEPALIVEs)
                          ('burst_many', (pool['keepalive'] * 9 + pool['update_withdraw']) * 130)) + \
            tuple(('burst_count_%d' % k, pool['keepalive'] * k) for k in (1023, 1024, 1025, 2047, 2048, 2049, 2050, 3449)):
        # (round 10: exact message counts around the powers of two a per-run message budget would use - a drain loop that
        #  stops after 2048 messages and resumes only when MORE than a header is left loses the 2049th KEEPALIVE; 3449
        #  KEEPALIVEs are what one 64 kB read can hold)
        base = None
        n = len(stream)
        for cuts in (([], [4096], [4097], [n // 2], [1000, 5000 % n if 5000 % n > 1000 else n - 1],
                      sorted(r.sample(range(1, n), 3)), list(range(512, n, 512))) if not label.startswith('burst_count')
                     else ([], [n // 2], [19 * 1024])):
            p, outs, final, hang = play('ESTABLISHED', cut(stream, cuts))
            res.stats.case(('seg', 'ESTABLISHED', label, tuple(cuts)), nontrivial=True, sample=None)
            res.stats.hit('stream_burst')
            if hang:
                res.fail('C04', 'handling of a chunk did not finish in bounded time / raised',
                         {'state': 'ESTABLISHED', 'stream': label, 'octets': n, 'cuts': cuts}, key='framing-hang')
                break
            if base is None:
                base = (outs, final, cuts)
                check_reaction(label, stream, 'ESTABLISHED', outs, final)
            elif (outs, final) != (base[0], base[1]):
                res.fail('C04', 'reaction depends on the TCP segmentation (a burst of %d octets of well-formed messages)' % n,
                         {'state': 'ESTABLISHED', 'stream': label, 'octets': n, 'cuts_a': base[2], 'cuts_b': cuts,
                          'outs_a': base[0][-3:], 'outs_b': outs[-3:], 'final_a': base[1], 'final_b': final},
                         key='framing-segmentation')
                break

    # ---- every length-field value and every type octet (header only, plus enough padding to be complete)
    lengths = list(range(0, 65536)) if tier != 'quick' else sorted(set(
        list(range(0, 45)) + list(range(4085, 4110)) + list(range(65520, 65536)) + [255, 256, 1000, 4096, 4097, 32767, 32768]
        + [r.randrange(65536) for _ in range(150)]))
    for ln in lengths:
        pad = max(0, min(ln, 4096) - 19)
        stream = header_only(ln, 4 if ln == 19 else 2, pad)
        p, outs, final, hang = play('ESTABLISHED', [stream])
        res.stats.case(('len', ln), sample=None)
        res.stats.hit('length_values')
        if hang:
            res.fail('C04', 'handling of a chunk did not finish in bounded time / raised',
                     {'stream': stream.hex()}, key='framing-hang')
        check_reaction('len%d' % ln, stream, 'ESTABLISHED', outs, final)
        # same stream cut inside the header and after it
        for cuts in ([18], [19], [1, 17]):
            if len(stream) > cuts[-1]:
                p2, outs2, final2, hang2 = play('ESTABLISHED', cut(stream, cuts))
                if (outs2, final2) != (outs, final):
                    res.fail('C04', 'reaction depends on the TCP segmentation',
                             {'state': 'ESTABLISHED', 'stream': stream.hex(), 'cuts_a': [], 'outs_a': outs,
                              'cuts_b': cuts, 'outs_b': outs2}, key='framing-segmentation')
    for ty in range(256):
        stream = header_only(23, ty, 4)
        p, outs, final, hang = play('ESTABLISHED', [stream])
        res.stats.case(('type', ty), sample=None)
        res.stats.hit('type_values')
        check_reaction('type%d' % ty, stream, 'ESTABLISHED', outs, final)
    queued_requests(res, r, tier, remote_as)
    res.exhaustive = tier != 'quick'
    return res


def queued_requests(res, r, tier, remote_as):
    """Implementation only: the application has queued requests on the handler (`inter_mq`: UPDATEs - one of which cannot be
    encoded - and nothing else), which the agent carries out when a KEEPALIVE arrives.  The stream [KEEPALIVE, UPDATE,
    KEEPALIVE, KEEPALIVE, UPDATE, KEEPALIVE] is delivered in one piece, octet by octet and in random segmentations: every
    chunk is handled in bounded time, and what the agent reports, writes and ends up as does not depend on the cuts."""
    pool = dict(SG.message_pool(remote_as))
    stream = b''.join(pool[k] for k in ('keepalive', 'update_ok', 'keepalive', 'keepalive', 'update_withdraw', 'keepalive'))
    queues = [
        [],
        [{'type': 'update', 'msg': {'attr': {1: 0, 2: [], 3: '10.0.0.1'}, 'nlri': ['10.7.0.0/16'], 'withdraw': []}}],
        [{'type': 'update', 'msg': {'attr': {1: 0, 2: [], 3: '10.0.0.300'}, 'nlri': ['10.7.0.0/16'], 'withdraw': []}}],
        [{'type': 'update', 'msg': {'attr': {1: 0, 2: [], 3: '10.0.0.1'}, 'nlri': ['10.7.0.0/16'], 'withdraw': []}},
         {'type': 'update', 'msg': {'attr': {1: 0, 2: [], 3: 'not-an-address'}, 'nlri': ['10.8.0.0/16'], 'withdraw': []}},
         {'type': 'update', 'msg': {'attr': {1: 0, 2: [], 3: '10.0.0.1'}, 'nlri': [], 'withdraw': ['10.7.0.0/16']}}],
    ]
    cutsets = [[], list(range(1, len(stream)))] + [sorted(r.sample(range(1, len(stream)), k)) for k in (1, 2, 5, 9)]
    for qi, queue in enumerate(queues):
        base = None
        for cuts in cutsets:
            sim = S.Sim({})
            for ev in ({'k': 'boot'}, {'k': 'connok', 'c': 0},
                       {'k': 'chunk', 'c': 0, 'hex': SG.frame(1, SG.open_body(remote_as, 90, caps=SG.std_caps(remote_as))).hex()},
                       {'k': 'chunk', 'c': 0, 'hex': SG.KEEPALIVE.hex()}):
                sim.step(ev)
            for item in queue:
                sim.handler.inter_mq.put(dict(item, msg=dict(item['msg'])))
            outs, hang = [], False
            for ch in cut(stream, cuts):
                if not sim.enabled({'k': 'chunk', 'c': 0}):
                    break
                o = sim.step({'k': 'chunk', 'c': 0, 'hex': ch.hex()})
                outs += o['outs']
                if o.get('hang') or o.get('escaped'):
                    hang = True
                    break
            final = sim.observe()
            # (the queued sends are written by the reactor thread after the chunk that triggered them: where the writes fall
            # BETWEEN the reports is the stand-in's flush point, not the agent's doing - both sequences are compared in order)
            got = ([o for o in outs if o[0] != 'write'], [o for o in outs if o[0] == 'write'], final['state'], final['stats'],
                   final['conns'])
            res.stats.case(('queued', qi, tuple(cuts)), sample=None)
            res.stats.hit('queued_requests')
            if hang:
                res.fail('C04', 'handling of a chunk did not finish in bounded time / raised while the application had requests queued',
                         {'queue': queue, 'stream': stream.hex(), 'cuts': cuts}, key='framing-hang')
                break
            if base is None:
                base = got
            elif got != base:
                res.fail('C04', 'with requests of the application queued, reaction depends on the TCP segmentation',
                         {'queue': queue, 'stream': stream.hex(), 'cuts': cuts, 'one_piece': base, 'cut': got}, key='framing-segmentation')
                break
