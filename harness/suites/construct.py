"""Suite `construct` (C08 - everything the agent constructs is structurally valid BGP on the wire).

  (a) correspondence, kept light (the constructors are tied in the suites update / openmsg / mpnlri / evf): the Lean
      constructor models (`upd.construct`, `open.construct`, `notif.construct`, `keepalive.construct`, `rr.construct`,
      `c08.mp.construct` = the MP constructors with the guards of the repaired code) against the real code, and every
      octet string the MODEL constructs is walked too - an instance of the C08_* theorems;
  (b) THE ORACLE: every message the REAL code constructs is piped to the Lean walker (`spec.walk`, Spec/Walker.lean):
      Update.construct over the C06 space (suites/update.py), the C07 spaces (suites/mpnlri.py, suites/evf.py) and the
      construct-only families - SR-TE policy NLRI, tunnel encapsulation with every segment sub-TLV kind, PMSI tunnel
      with and without EVPN overlay, IPv6 flow specification, extended communities of every kind - with inputs
      harvested from the repository's own tests (AST) and from boundary pools, including values of the wrong address
      family / shape ("otherwise construction fails with an error"); Open.construct over capability dictionaries;
      Notification / KeepAlive / RouteRefresh.  A constructor exception is fine; a message that does not walk is a
      failure of C08 whose key names the family and the place of the first violation.

There is no second walker in Python: validity is decided by the Lean specification alone.
"""
import re
import struct

from lib.base import SuiteResult, rng_for, jdump
from gen import values as G
import impl_construct as IC
import impl_codec as ICD

PROP = 'C08'
P32 = 1 << 32


# ------------------------------------------------------------------------------------------------ failure keys

def fail_key(family, path):
    """family + the place of the first violation with indices / sizes / octets removed"""
    p = path.split(' at ')[0]
    p = re.sub(r'\[\d+\]', '[]', p)
    p = re.sub(r'of \d+ octets', 'of N octets', p)
    p = re.sub(r'length(?: field)? \d+ (exceeds|but) .*', r'length \1', p)
    p = re.sub(r'message of \d+ octets', 'message of N octets', p)
    p = re.sub(r'flags 0x[0-9a-f]+', 'flags', p)
    p = re.sub(r'afi=\d+ safi=\d+', '', p)
    return '%s: %s' % (family, p.strip())


def _label_key(replay, why):
    """the recorded finding (a stack whose last label is 0 is written without the bottom-of-stack bit: the shared helper's
    special case, pinned by the repository's EVPN test) has its own key"""
    def last_labels(o):
        if isinstance(o, dict):
            if 'label' in o and isinstance(o['label'], (list, tuple)) and o['label']:
                yield o['label'][-1]
            for v in o.values():
                for x in last_labels(v):
                    yield x
        elif isinstance(o, (list, tuple)):
            for v in o:
                for x in last_labels(v):
                    yield x
    if any(l == 0 for l in last_labels(replay)):
        return 'KF-labeled-last-label-zero'
    return 'label-stack'


def label_stacks_ok(wire):
    """RFC 8277 / 4364 label stacks inside the MP_REACH_NLRI / MP_UNREACH_NLRI of labeled (SAFI 4) and VPN (SAFI 128) routes:
    every route's stack ends at the FIRST entry with the bottom-of-stack bit (or at the withdraw pseudo-labels 0x800000 /
    0x000000), and what follows it (route distinguisher for VPN, then the prefix) fits the length in bits the route announces
    with a prefix of at most 32 / 128 bits.  The Lean walker checks that the lengths add up; this looks inside the stack.
    Returns None when fine, else a description."""
    body = wire[19:]
    try:
        wl = struct.unpack('!H', body[:2])[0]
        al = struct.unpack('!H', body[2 + wl:4 + wl])[0]
    except struct.error:
        return None
    a = body[4 + wl:4 + wl + al]
    while len(a) >= 3:
        hl = 4 if a[0] & 0x10 else 3
        if len(a) < hl:
            return None
        ln = struct.unpack('!H', a[2:4])[0] if a[0] & 0x10 else a[2]
        code, v = a[1], a[hl:hl + ln]
        a = a[hl + ln:]
        if code not in (14, 15) or len(v) < 3:
            continue
        afi, safi = struct.unpack('!HB', v[:3])
        if safi not in (4, 128) or afi not in (1, 2):
            continue
        if code == 14:
            if len(v) < 5:
                continue
            nh = v[3]
            nlri = v[4 + nh + 1:]
        else:
            nlri = v[3:]
        maxp = 32 if afi == 1 else 128
        n = 0
        while nlri:
            bits = nlri[0]
            octets = (bits + 7) // 8
            item, nlri = nlri[1:1 + octets], nlri[1 + octets:]
            if len(item) < octets:
                return 'route %d: %d bits announced, %d octets present' % (n, bits, len(item))
            k = 0
            done = False
            while len(item) >= 3 * (k + 1):
                lab = item[3 * k:3 * k + 3]
                k += 1
                if lab[2] & 1 or (code == 15 and lab in (b'\x80\x00\x00', b'\x00\x00\x00')):
                    done = True
                    break
            if not done:
                return 'route %d: the label stack has no bottom-of-stack entry' % n
            rest_bits = bits - 24 * k - (64 if safi == 128 else 0)
            if rest_bits < 0 or rest_bits > maxp:
                return 'route %d: after %d label(s) %d bits are left for the prefix (0..%d allowed)' % (n, k, rest_bits, maxp)
            n += 1
    return None


class Oracle(object):
    """collects (family, replay, hex, cfg) and walks them in batches"""

    def __init__(self, res, walker):
        self.res = res
        self.walker = walker
        self.pending = []

    def add(self, family, replay, out, asn4=False, addpath=False):
        st = self.res.stats
        if 'hex' in out:
            st.hit('constructed:' + family)
            self.pending.append((family, replay, out['hex'], asn4, addpath))
            why = label_stacks_ok(bytes.fromhex(out['hex']))
            if why:
                self.res.fail(PROP, 'constructed message is not structurally valid (%s): label stack: %s' % (family, why),
                              {'family': family, 'input': replay, 'asn4': asn4, 'addpath': addpath, 'hex': out['hex']},
                              key=_label_key(replay, why))
        elif 'hang' in out:
            st.hit('hang:' + family)
            self.res.fail(PROP, 'constructor does not return (%s)' % family, {'family': family, 'input': replay},
                          key='%s: hang' % family)
        else:
            st.hit('error:' + family)
        if len(self.pending) >= 4000:
            self.flush()

    def flush(self):
        if not self.pending:
            return
        reqs = [{'op': 'spec.walk', 'hex': h, 'asn4': a, 'addpath': ap} for (_, _, h, a, ap) in self.pending]
        outs = self.walker.batch(reqs)
        for (family, replay, h, a, ap), o in zip(self.pending, outs):
            self.res.stats.case(('w', h, a, ap), nontrivial=len(h) > 38,
                                sample={'family': family, 'input': replay, 'hex': h[:200], 'walk': o})
            if 'valid' not in o:
                self.res.disagree('spec.walk failed', {'hex': h}, None, o)
                continue
            if not o['valid']:
                self.res.stats.hit('INVALID:' + family)
                self.res.fail(PROP, 'constructed message is not structurally valid (%s): %s' % (family, o['path']),
                              {'family': family, 'input': replay, 'asn4': a, 'addpath': ap, 'hex': h,
                               'path': o['path']},
                              key=fail_key(family, o['path']))
            else:
                self.res.stats.hit('walked')
        self.pending = []


# ------------------------------------------------------------------------------------------------ pools

V4 = ['0.0.0.0', '1.1.1.1', '10.0.0.1', '192.168.1.1', '255.255.255.255', '127.0.0.1', '224.0.0.1']
V6 = ['::', '::1', '2001:db8::1', 'fe80::1', 'ffff:ffff:ffff:ffff:ffff:ffff:ffff:ffff', '::ffff:1.2.3.4', '::1.2.3.4',
      'abcd:ef01:2345:6789:abcd:ef01:2345:6789']
U8 = [0, 1, 127, 128, 255]
U16 = [0, 1, 255, 256, 65535]
U20 = [0, 1, 15, 16, 2 ** 20 - 1]
U32 = [0, 1, 255, 65535, 65536, 2 ** 31, 2 ** 32 - 1]
OVER = [-1, 256, 65536, 2 ** 20, 2 ** 24, 2 ** 32, 2 ** 64]
MACS = ['00-11-22-33-44-55', 'ff-ff-ff-ff-ff-ff', '00-00-00-00-00-00', '4c-1f-cc-ec-17-73']
BAD_MACS = ['00-11-22-33-44', '00-11-22-33-44-55-66', '00:11:22:33:44:55', '', '1-2-3-4-5-6', '100-1-1-1-1-1']
BASE_ATTR = {1: 0, 2: [(2, [65001])], 3: '10.0.0.1'}


def with_base(extra):
    d = dict(BASE_ATTR)
    d.update(extra)
    return d


# ------------------------------------------------------------------------------------------------ standard attributes

def std_edge_cases():
    """(family, msg, asn4, addpath): wrong address family / shape / range for every standard attribute and for
    the IPv4 prefix fields"""
    out = []

    def a(fam, code, value, asn4=False):
        out.append((fam, {'attr': {code: value}}, asn4, False))
        out.append((fam, {'attr': with_base({code: value}), 'nlri': ['10.0.0.0/8']}, asn4, False))

    for v in [0, 1, 2, 3, 255, 256, -1, True, '0', None, 1.0]:
        a('origin', 1, v)
    for t in [0, 1, 2, 3, 4, 5, 255, 256, -1]:
        for n in [0, 1, 2, 127, 128, 255, 256]:
            for asn4 in (False, True):
                a('as-path', 2, [(t, [64512 + (i % 100) for i in range(n)])], asn4)
    for asn4 in (False, True):
        a('as-path', 2, [], asn4)
        a('as-path', 2, [(2, [65535]), (1, [65536])], asn4)
        a('as-path', 2, [(2, [2 ** 32 - 1])], asn4)
        a('as-path', 2, [(2, [2 ** 32])], asn4)
        a('as-path', 2, [(2, [1] * 255)] * 64, asn4)          # beyond 65535 octets in 4-octet mode
        a('as-path', 2, [(2, [1] * 60)] * 2, asn4)            # around the 255-octet boundary
        a('as-path', 2, [(2, [1] * 62), (1, [2])], asn4)
        a('as-path', 2, [(2, [1] * 126)], asn4)
        a('as-path', 2, [(2, [1] * 127)], asn4)
    for v in V4 + V6 + ['', 'x', '1.1.1', '1.1.1.1/32', 16843009, None]:
        a('next-hop', 3, v)
        a('originator-id', 9, v)
        for asn4 in (False, True):
            a('aggregator', 7, [100, v], asn4)
        a('cluster-list', 10, [v])
        a('cluster-list', 10, ['1.1.1.1', v])
        a('cluster-list', 10, [v, v, v, v])
    for asn4 in (False, True):
        for asn in U32 + OVER:
            a('aggregator', 7, [asn, '1.1.1.1'], asn4)
        a('aggregator', 7, [1], asn4)
        a('aggregator', 7, [1, '1.1.1.1', 5], asn4)
    for v in U32 + OVER + ['1', None, 1.5]:
        a('med', 4, v)
        a('local-pref', 5, v)
    for v in ['', b'', 0, None, False, [], 'x', 1, True, [1]]:
        a('atomic-aggregate', 6, v)
    for n in [0, 1, 2, 63, 64, 65]:
        a('community', 8, ['65535:%d' % i for i in range(n)])
        a('cluster-list', 10, [G.ip(i + 1) for i in range(n)])
    for v in (['NO_EXPORT'], ['no_export'], ['1:2:3'], ['1'], ['65536:1'], ['1:65536'], ['4294967295:0'], ['-1:1'],
              ['a:b'], [''], ['0:0', 'NO_ADVERTISE', '65535:65535'], 'NO_EXPORT', [1]):
        a('community', 8, v)
    for n in [0, 1, 2, 21, 22]:
        a('large-community', 32, ['%d:%d:%d' % (i, 2 ** 32 - 1, 0) for i in range(n)])
    for v in (['1:2'], ['1'], ['1:2:3:4'], ['1:2:3', '4:5'], ['1:2', '3'], ['4294967296:1:1'], ['-1:1:1'], ['a:b:c'],
              [''], ['1:2:3:4:5:6'], '1:2:3', [':::']):
        a('large-community', 32, v)
    for code in (0, 11, 12, 13, 17, 18, 19, 20, 21, 24, 25, 26, 29, 40, 128, 255, 256):
        a('unknown-code', code, b'\x01\x02')
        a('unknown-code', code, '0102')
    # the IPv4 prefix fields
    pf = ['0.0.0.0/0', '10.0.0.0/8', '10.1.0.0/9', '1.2.3.4/32', '1.2.3.4/33', '1.2.3.4/-1', '1.2.3.4', '1.2.3.4/',
          '::/0', '::/64', '::1/128', '2001:db8::/32', '::ffff:0:0/96', '::1.2.3.4/32', '::/8', '1.2.3.4/8/8', '/8',
          '300.1.1.1/8', '1.2.3.4/08', '1.2.3.4/ 8', '1.2.3.4/255.0.0.0']
    for p in pf:
        out.append(('ipv4-nlri', {'attr': dict(BASE_ATTR), 'nlri': [p]}, False, False))
        out.append(('ipv4-nlri', {'attr': dict(BASE_ATTR), 'nlri': ['10.0.0.0/8', p, '11.0.0.0/8']}, False, False))
        out.append(('ipv4-withdraw', {'withdraw': [p]}, False, False))
        out.append(('ipv4-nlri', {'attr': dict(BASE_ATTR), 'nlri': [{'prefix': p, 'path_id': 1}]}, False, True))
        out.append(('ipv4-nlri-addpath-plain', {'attr': dict(BASE_ATTR), 'nlri': [p]}, False, True))
        out.append(('ipv4-nlri', {'attr': dict(BASE_ATTR), 'nlri': [{'prefix': p, 'path_id': 1}]}, False, False))
    for pid in U32 + OVER + [None, '1']:
        out.append(('ipv4-nlri', {'attr': dict(BASE_ATTR), 'nlri': [{'prefix': '10.0.0.0/8', 'path_id': pid}]}, False, True))
        out.append(('ipv4-withdraw', {'withdraw': [{'prefix': '10.0.0.0/8', 'path_id': pid}]}, False, True))
    out.append(('ipv4-nlri-addpath-plain', {'attr': dict(BASE_ATTR), 'nlri': [{'prefix': '10.0.0.0/8', 'path_id': 1}, '11.0.0.0/8']},
                False, True))
    out.append(('ipv4-nlri', {'attr': dict(BASE_ATTR), 'nlri': [{'prefix': '10.0.0.0/8'}]}, False, True))
    # sizes around the limits of the two length fields and of the header
    for n in (800, 1000, 4096, 13000, 16380, 16384, 21000):
        out.append(('ipv4-nlri-many', {'attr': dict(BASE_ATTR), 'nlri': ['10.%d.%d.0/24' % ((i >> 8) & 255, i & 255) for i in range(n)]},
                    False, False))
        out.append(('ipv4-withdraw-many', {'withdraw': ['10.%d.%d.0/24' % ((i >> 8) & 255, i & 255) for i in range(n)]}, False, False))
    out.append(('empty', {}, False, False))
    out.append(('empty', {'attr': {}}, False, False))
    out.append(('empty', {'nlri': ['10.0.0.0/8']}, False, False))
    return out


# ------------------------------------------------------------------------------------------------ extended communities

def extcomm_cases():
    c = IC.bgp_cons
    out = []

    def a(kind, items):
        out.append(('extcomm-' + kind, {'attr': with_base({16: items})}, False, False))

    two = [(c.BGP_EXT_COM_RT_0, 'rt0'), (c.BGP_EXT_COM_RO_0, 'ro0'), (c.BGP_EXT_REDIRECT_VRF, 'redirect-vrf'),
           (c.BGP_EXT_COM_LINK_BW, 'link-bw'), (c.BGP_EXT_TRA_RATE, 'traffic-rate')]
    for code, kind in two:
        for asn in U16 + [65536, -1]:
            for an in U32 + [2 ** 32, -1]:
                a(kind, [[code, '%d:%d' % (asn, an)]])
        for v in ['1', '1:2:3', 'a:b', '', '1.1.1.1:1', ':']:
            a(kind, [[code, v]])
    for code, kind in [(c.BGP_EXT_COM_RT_2, 'rt2'), (c.BGP_EXT_COM_RO_2, 'ro2')]:
        for asn in U32 + [2 ** 32, -1]:
            for an in U16 + [65536, -1]:
                a(kind, [[code, '%d:%d' % (asn, an)]])
    for code, kind in [(c.BGP_EXT_COM_RT_1, 'rt1'), (c.BGP_EXT_COM_RO_1, 'ro1')]:
        for ip in V4 + V6[:3] + ['', 'x']:
            for an in U16 + [65536]:
                a(kind, [[code, '%s:%d' % (ip, an)]])
    for ip in V4 + V6 + ['', 'x']:
        for flag in [0, 1, 65535, 65536, -1]:
            a('redirect-nh', [[c.BGP_EXT_REDIRECT_NH, ip, flag]])
    for v in U8 + [256, -1, '1']:
        a('traffic-marking', [[c.BGP_EXT_TRA_MARK, v]])
    for s in (0, 1, 2):
        for t in (0, 1, 2, 200):
            a('traffic-action', [[c.BGP_EXT_TRA_ACTION, {'s': s, 't': t}]])
    a('traffic-action', [[c.BGP_EXT_TRA_ACTION, {}]])
    for code, kind in [(c.BGP_EXT_COM_COLOR, 'color'), (c.BGP_EXT_COM_COLOR_00, 'color-00'), (c.BGP_EXT_COM_COLOR_01, 'color-01'),
                       (c.BGP_EXT_COM_COLOR_10, 'color-10'), (c.BGP_EXT_COM_COLOR_11, 'color-11'),
                       (c.BGP_EXT_COM_ENCAP, 'encapsulation')]:
        for v in U32 + [2 ** 32, -1, '7', 'x']:
            a(kind, [[code, v]])
    for code, kind in [(c.BGP_EXT_COM_EVPN_ES_IMPORT, 'es-import'), (c.BGP_EXT_COM_EVPN_ROUTE_MAC, 'router-mac')]:
        for m in MACS + BAD_MACS:
            a(kind, [[code, m]])
    for flag in U8 + [256]:
        for lab in U20 + [2 ** 20, 2 ** 24, 2 ** 28]:
            a('esi-label', [[c.BGP_EXT_COM_EVPN_ESI_MPLS_LABEL, flag, lab]])
        for seq in U32 + [2 ** 32]:
            a('mac-mobility', [[c.BGP_EXT_COM_EVPN_MAC_MOBIL, flag, seq]])
    a('unknown', [[0x4301, '1:1']])
    a('unknown', [[0x4301, '1:1'], [c.BGP_EXT_COM_RT_0, '1:1']])
    a('unknown', [[0, "b'\\x00'"]])
    a('empty', [])
    # every kind once in one attribute, and lists around the 255-octet limit of the 1-octet length
    one_of_each = [[c.BGP_EXT_COM_RT_0, '100:12'], [c.BGP_EXT_COM_RT_1, '10.10.10.10:12'], [c.BGP_EXT_COM_RT_2, '65537:12'],
                   [c.BGP_EXT_COM_RO_0, '100:12'], [c.BGP_EXT_COM_RO_1, '10.10.10.10:12'], [c.BGP_EXT_COM_RO_2, '65537:12'],
                   [c.BGP_EXT_REDIRECT_VRF, '4837:100'], [c.BGP_EXT_REDIRECT_NH, '10.10.10.10', 0],
                   [c.BGP_EXT_TRA_MARK, 63], [c.BGP_EXT_TRA_RATE, '100:6250000'], [c.BGP_EXT_TRA_ACTION, {'s': 1, 't': 1}],
                   [c.BGP_EXT_COM_COLOR, 100], [c.BGP_EXT_COM_COLOR_00, 1], [c.BGP_EXT_COM_COLOR_01, 2],
                   [c.BGP_EXT_COM_COLOR_10, 3], [c.BGP_EXT_COM_COLOR_11, 4], [c.BGP_EXT_COM_ENCAP, 8],
                   [c.BGP_EXT_COM_EVPN_ES_IMPORT, '00-11-22-33-44-55'], [c.BGP_EXT_COM_EVPN_ESI_MPLS_LABEL, 1, 20],
                   [c.BGP_EXT_COM_EVPN_MAC_MOBIL, 1, 500], [c.BGP_EXT_COM_EVPN_ROUTE_MAC, '00-11-22-33-44-55'],
                   [c.BGP_EXT_COM_LINK_BW, '65001:1250000']]
    a('all-kinds', one_of_each)
    for n in (30, 31, 32, 33):
        a('many', [[c.BGP_EXT_COM_RT_0, '100:%d' % i] for i in range(n)])
    return out


# ------------------------------------------------------------------------------------------------ SR-TE policy, tunnel

def srte_cases():
    out = []
    eps = V4 + V6 + ['', 'x']
    for ep in eps:
        for d, col in ((0, 0), (1, 100), (2 ** 32 - 1, 2 ** 32 - 1), (2 ** 32, 1), (1, -1)):
            nlri = {'distinguisher': d, 'color': col, 'endpoint': ep}
            for nh in ('10.0.0.1', '2001:db8::1', '', 'x'):
                out.append(('srte-nlri', {'attr': with_base({14: {'afi_safi': (1, 73), 'nexthop': nh, 'nlri': nlri}})}, False, False))
            out.append(('srte-nlri', {'attr': {15: {'afi_safi': (1, 73), 'withdraw': nlri}}}, False, False))
    out.append(('srte-nlri', {'attr': {14: {'afi_safi': (1, 73), 'nexthop': '10.0.0.1', 'nlri': {}}}}, False, False))
    out.append(('srte-nlri', {'attr': {15: {'afi_safi': (1, 73), 'withdraw': {}}}}, False, False))
    out.append(('srte-nlri', {'attr': {14: {'afi_safi': (2, 73), 'nexthop': '2001:db8::1',
                                            'nlri': {'distinguisher': 1, 'color': 1, 'endpoint': '2001:db8::2'}}}}, False, False))
    return out


def sid(label=2000, **kw):
    d = {'label': label}
    d.update(kw)
    return d


def segment_pool():
    """every segment sub-TLV kind the constructor has a branch for, with and without the optional SID, plus the kinds
    it has no branch for (2, 4, 7, 8) and values of the wrong family / out of range"""
    segs = []
    for lab in U20 + [2 ** 20]:
        segs.append({'1': sid(lab)})
    segs.append({'1': sid(2000, TC=7, S=1, TTL=0)})
    segs.append({'1': sid(2000, TC=8, S=2, TTL=256)})
    for node in V4[:3] + V6[:2]:
        segs.append({'3': {'node': node}})
        segs.append({'3': {'node': node, 'SID': sid(3000, TC=0, S=0, TTL=255)}})
        for itf in (0, 1, 2 ** 32 - 1):
            segs.append({'5': {'interface': itf, 'node': node}})
            segs.append({'5': {'interface': itf, 'node': node, 'SID': sid(4000)}})
        for rem in V4[1:3] + V6[1:2]:
            segs.append({'6': {'local': node, 'remote': rem}})
            segs.append({'6': {'local': node, 'remote': rem, 'SID': sid(5000, S=1)}})
    segs.append({'5': {'interface': 2 ** 32, 'node': '1.1.1.1'}})
    segs.append({'2': {'sid': '2001:db8::1'}})
    segs.append({'4': {'node': '2001:db8::1'}})
    segs.append({'7': {'interface': 1, 'node': '2001:db8::1'}})
    segs.append({'8': {'local': '2001:db8::1', 'remote': '2001:db8::2'}})
    segs.append({1: sid(7)})
    return segs


def tunnel_cases(r, n_rand):
    out = []

    def a(value, with_nlri=True, fam='tunnel-encaps'):
        attr = {23: value}
        if with_nlri:
            attr = with_base({14: {'afi_safi': (1, 73), 'nexthop': '10.0.0.1',
                                   'nlri': {'distinguisher': 0, 'color': 100, 'endpoint': '10.0.0.9'}}, 23: value})
        out.append((fam, {'attr': attr}, False, False))

    segs = segment_pool()
    for enc in ('old', 'new'):
        a({'0': enc})
        for k in ('6', '7', '12', '13'):
            for v in U32[:4] + [2 ** 20 - 1, 2 ** 20, 2 ** 32 - 1, 2 ** 32]:
                a({'0': enc, k: v})
        for v in U8 + [256]:
            a({'0': enc, '14': v})
            a({'0': enc, '15': v})
        for name in ('', 't', 'test', 'x' * 254, 'x' * 255, 'x' * 65534, 'x' * 65535, u'café'):
            a({'0': enc, '129': name})
        for afi, addr in (('ipv4', '1.1.1.1'), ('ipv6', '2001:db8::1'), ('ipv4', '2001:db8::1'), ('ipv6', '1.1.1.1'),
                          ('ipv5', '1.1.1.1'), ('ipv4', ''), (None, '1.1.1.1')):
            for asn in (0, 300, 2 ** 32 - 1, 2 ** 32):
                a({'0': enc, '6': {'asn': asn, 'afi': afi, 'address': addr}})
        a({'0': enc, '12': 100, '13': 25102, '14': 1, '15': 200, '129': 'policy', '6': {'asn': 1, 'afi': 'ipv4', 'address': '1.1.1.1'}})
        a({'0': enc, '6': 100, '7': 25102, '12': 200, '13': 25103})
        # every segment kind alone, with and without weight; then all in one list; several lists
        for s in segs:
            a({'0': enc, '128': [{'1': [s]}]}, fam='tunnel-encaps-segment')
            a({'0': enc, '128': [{'9': 10, '1': [s]}]}, fam='tunnel-encaps-segment')
        for w in U32 + [2 ** 32]:
            a({'0': enc, '128': [{'9': w, '1': []}]}, fam='tunnel-encaps-segment')
        a({'0': enc, '128': []}, fam='tunnel-encaps-segment')
        a({'0': enc, '128': [{'1': []}]}, fam='tunnel-encaps-segment')
        a({'0': enc, '128': [{}]}, fam='tunnel-encaps-segment')
        good = [s for s in segs if list(s)[0] in ('1', '3', '5', '6') and 'db8' not in repr(s) and '::' not in repr(s)
                and s != segs[5] and '4294967296' not in repr(s) and 'TC\': 8' not in repr(s)]
        a({'0': enc, '7': 25102, '6': 100, '128': [{'9': 10, '1': good}]}, fam='tunnel-encaps-segment')
        a({'0': enc, '128': [{'9': 1, '1': good[:3]}, {'9': 2, '1': good[3:6]}, {'1': good[6:8]}]}, fam='tunnel-encaps-segment')
        for n in (10, 25, 26, 100, 1000, 6553, 6554):
            a({'0': enc, '128': [{'1': [{'1': sid(16 + i)} for i in range(n)]}]}, fam='tunnel-encaps-segment')
        a({'0': enc, '128': [{'1': [{'1': sid(16 + i)} for i in range(40)]}] * 180}, fam='tunnel-encaps-segment')
    for bad in ({}, {'0': 'both'}, {'7': 1}, {'0': 'new', '999': 1}, {'0': 'old', 'x': 1}):
        a(bad)
    a({'0': 'new', '13': 25102}, with_nlri=False)
    for _ in range(n_rand):
        enc = r.choice(['old', 'new'])
        v = {'0': enc}
        for k in r.sample(['6', '7', '12', '13', '14', '15', '129', '128'], r.randint(1, 5)):
            if k in ('6', '7', '12', '13'):
                v[k] = r.choice(U32 + [r.getrandbits(20)])
                if k == '6' and enc == 'new' and r.random() < 0.5:
                    v[k] = {'asn': r.getrandbits(32), 'afi': r.choice(['ipv4', 'ipv6']), 'address': r.choice(V4 + V6)}
            elif k in ('14', '15'):
                v[k] = r.choice(U8)
            elif k == '129':
                v[k] = 'p' * r.choice([0, 1, 10, 300])
            else:
                v[k] = [dict(([('9', r.getrandbits(32))] if r.random() < 0.5 else []) +
                             [('1', [r.choice(segs) for _ in range(r.choice([0, 1, 2, 5]))])])
                        for _ in range(r.choice([1, 1, 2, 3]))]
        a(v, with_nlri=r.random() < 0.5, fam='tunnel-encaps-random')
    return out


def canon_policies(r, n_rand):
    """policies in the canonical shape of `c08.tunnel.construct` (Model/Construct/Tunnel.lean)"""
    ips = [[4, 0], [4, 0x0a010101], [4, 2 ** 32 - 1], [6, 1], [6, 0x20010db8 << 96]]
    sids = [{'label': 2000}, {'label': 0, 'tc': 0, 's': 0, 'ttl': 0}, {'label': 2 ** 20 - 1, 'tc': 7, 's': 1, 'ttl': 255},
            {'label': 2 ** 20, 'tc': 0, 's': 0, 'ttl': 255}, {'label': 3000, 'tc': 8, 's': 2, 'ttl': 256}, {'label': 16, 's': 1},
            {'label': 17, 'ttl': 1}, {'label': 18, 'tc': 3}]
    segs = [{'t': 1, 'sid': x} for x in sids]
    for node in ips:
        for sid in (None, sids[0], sids[2], sids[3]):
            segs.append({'t': 3, 'node': node, 'sid': sid})
            for itf in (0, 1, 2 ** 32 - 1, 2 ** 32):
                segs.append({'t': 5, 'itf': itf, 'node': node, 'sid': sid})
            for rem in ips[1:4]:
                segs.append({'t': 6, 'local': node, 'remote': rem, 'sid': sid})
    segs += [{'t': t} for t in (0, 2, 4, 7, 8, 9, 13, 255)]
    out = []
    for enc in ('old', 'new', 'both', None):
        out.append({'enc': enc})
        for k in ('k7', 'k12', 'k13'):
            for v in (0, 1, 100, 25102, 2 ** 20 - 1, 2 ** 20, 2 ** 32 - 1, 2 ** 32):
                out.append({'enc': enc, k: v})
                out.append({'enc': enc, k: v, 'k6': {'n': 5}})
        for v in (0, 1, 100, 2 ** 32 - 1, 2 ** 32):
            out.append({'enc': enc, 'k6': {'n': v}})
            out.append({'enc': enc, 'k6': {'n': v}, 'k12': 7, 'k7': 9, 'k13': 11})
        for v in (0, 1, 255, 256):
            out.append({'enc': enc, 'k14': v})
            out.append({'enc': enc, 'k15': v})
        for name in (b'', b't', b'test', b'x' * 255, b'x' * 65534, b'x' * 65535):
            out.append({'enc': enc, 'k129': name.hex()})
        for afi in ('ipv4', 'ipv6', 'ipv5'):
            for addr in ips:
                for asn in (0, 300, 2 ** 32 - 1, 2 ** 32):
                    out.append({'enc': enc, 'k6': {'asn': asn, 'afi': afi, 'address': addr}})
        out.append({'enc': enc, 'k12': 100, 'k13': 25102, 'k14': 1, 'k15': 200, 'k129': b'policy'.hex(),
                    'k6': {'asn': 1, 'afi': 'ipv4', 'address': ips[1]}})
        for g in segs:
            for w in (None, 10):
                for first in (False, True):
                    out.append({'enc': enc, 'seg_first': first, 'k128': [{'weight': w, 'segs': [g]}]})
        for w in (0, 2 ** 32 - 1, 2 ** 32):
            out.append({'enc': enc, 'k128': [{'weight': w, 'segs': []}]})
        out.append({'enc': enc, 'k128': []})
        out.append({'enc': enc, 'k128': [{'weight': None, 'segs': None}]})
        out.append({'enc': enc, 'k128': [{'weight': 5, 'segs': None}]})
        good = [g for g in segs if g['t'] in (1, 3, 5, 6) and all(a[0] == 4 for a in (g.get('node'), g.get('local'), g.get('remote')) if a)
                and (g.get('sid') or sids[0])['label'] < 2 ** 20 and (g.get('sid') or sids[0]).get('tc', 0) < 8
                and g.get('itf', 0) < 2 ** 32]
        out.append({'enc': enc, 'k7': 25102, 'k6': {'n': 100}, 'k128': [{'weight': 10, 'segs': good[:40]}]})
        out.append({'enc': enc, 'seg_first': True, 'k128': [{'weight': 1, 'segs': good[:3]}, {'weight': 2, 'segs': good[3:6]},
                                                              {'weight': None, 'segs': good[6:8]}]})
        for n in (10, 25, 26, 1000, 8190, 8191, 8192):
            out.append({'enc': enc, 'k128': [{'weight': None, 'segs': [{'t': 1, 'sid': {'label': 16 + i}} for i in range(n)]}]})
        out.append({'enc': enc, 'k128': [{'weight': None, 'segs': [{'t': 1, 'sid': {'label': 16 + i}} for i in range(40)]}] * 203})
        out.append({'enc': enc, 'k128': [{'weight': None, 'segs': [{'t': 1, 'sid': {'label': 16 + i}} for i in range(40)]}] * 204})
    for _ in range(n_rand):
        p = {'enc': r.choice(['old', 'new', 'new', 'old', 'both', None]), 'seg_first': r.random() < 0.3}
        for k in r.sample(['k6', 'k7', 'k12', 'k13', 'k14', 'k15', 'k129', 'k128'], r.randint(0, 6)):
            if k == 'k6':
                p[k] = r.choice([{'n': r.choice([0, 100, 2 ** 32 - 1, 2 ** 32])},
                                 {'asn': r.getrandbits(32), 'afi': r.choice(['ipv4', 'ipv6', 'x']), 'address': r.choice(ips)}])
            elif k in ('k7', 'k12', 'k13'):
                p[k] = r.choice([0, 1, 2 ** 20 - 1, 2 ** 20, r.getrandbits(20), 2 ** 32 - 1])
            elif k in ('k14', 'k15'):
                p[k] = r.choice([0, 1, 255, 256])
            elif k == 'k129':
                p[k] = (b'p' * r.choice([0, 1, 10, 300])).hex()
            else:
                p[k] = [{'weight': r.choice([None, 0, r.getrandbits(32)]),
                         'segs': [r.choice(segs) for _ in range(r.choice([0, 1, 2, 5]))] if r.random() < 0.95 else None}
                        for _ in range(r.choice([0, 1, 1, 2, 3]))]
        out.append(p)
    return out


# ------------------------------------------------------------------------------------------------ PMSI tunnel

def pmsi_cases():
    c = IC.bgp_cons
    out = []
    evpn_reach = {'afi_safi': (25, 70), 'nexthop': '10.75.44.254',
                  'nlri': [{'type': 3, 'value': {'rd': '172.16.0.1:5904', 'eth_tag_id': 100, 'ip': '192.168.0.1'}}]}
    overlays = [('pmsi', None), ('pmsi-evpn-overlay-vxlan', 8), ('pmsi-evpn-overlay-nvgre', 9), ('pmsi-evpn-overlay-mpls', 10),
                ('pmsi-evpn-no-encap', -1)]
    for fam, encap in overlays:
        for tt in list(range(0, 9)) + [255, 256]:
            for tid in V4[:3] + V6[:3] + ['', None]:
                for lab in U20 + [2 ** 20, 2 ** 24 - 1, 2 ** 24, 2 ** 28]:
                    for leaf in (0, 1, 255, 256):
                        if leaf and lab not in (0, 2 ** 20 - 1):
                            continue
                        v = {'mpls_label': [lab], 'tunnel_id': tid, 'tunnel_type': tt, 'leaf_info_required': leaf}
                        attr = with_base({22: v})
                        if encap is not None:
                            attr[14] = evpn_reach
                            if encap >= 0:
                                attr[16] = [[c.BGP_EXT_COM_DICT['encapsulation'], encap]]
                            else:
                                attr[16] = [[c.BGP_EXT_COM_RT_0, '1:1']]
                        out.append((fam, {'attr': attr}, False, False))
        out.append((fam, {'attr': with_base({22: {'mpls_label': [], 'tunnel_id': '1.1.1.1', 'tunnel_type': 6, 'leaf_info_required': 0}})},
                    False, False))
        out.append((fam, {'attr': with_base({22: {'mpls_label': [1, 2], 'tunnel_id': '1.1.1.1', 'tunnel_type': 6, 'leaf_info_required': 0}})},
                    False, False))
    return out


# ------------------------------------------------------------------------------------------------ IPv6 flow specification

FS6_OPS = ['=', '>', '<', '>=', '<=']
FS6_VALUES = [0, 1, 127, 128, 255, 256, 65535, 65536, 2 ** 24 - 1, 2 ** 24, 2 ** 32 - 1, 2 ** 32, 2 ** 40, 2 ** 48 - 1, 2 ** 48,
              2 ** 64 - 1, 2 ** 64]
FS6_PREFIXES = [('::', 0), ('2001:db8::', 32), ('2001:db8::', 33), ('2001:db8:1:2::', 64), ('2001:db8::1', 128), ('fe80::', 10),
                ('ff00::', 8), ('2001:db8::', 1), ('2001:db8:ffff:ffff:ffff:ffff:ffff:ffff', 127), ('1.2.3.0', 24), ('::', 129)]


def fs6_cases(r, n_rand):
    out = []

    def a(rules, fam='flowspec6', unreach=False):
        if unreach:
            out.append((fam, {'attr': {15: {'afi_safi': (2, 133), 'withdraw': rules}}}, False, False))
        else:
            out.append((fam, {'attr': with_base({14: {'afi_safi': (2, 133), 'nexthop': '', 'nlri': rules}})}, False, False))

    for addr, ln in FS6_PREFIXES:
        for off in sorted(set([0, 1, 7, 8, 9, 16, 31, 32, 33, 63, 64, 65, 127, 128, ln, max(ln - 1, 0), ln + 1, 200, 256, -1])):
            for t in (1, 2):
                a([{t: {'prefix': '%s/%d' % (addr, ln), 'offset': off}}], fam='flowspec6-prefix')
    a([{1: {'prefix': '2001:db8::/32'}}], fam='flowspec6-prefix')
    a([{1: '2001:db8::/32'}], fam='flowspec6-prefix')
    a([{1: {'prefix': '2001:db8::/32', 'offset': 0}, 2: {'prefix': '2001:db8:1::/48', 'offset': 16}}], fam='flowspec6-prefix')
    for t in range(3, 15):
        for op in FS6_OPS:
            for v in FS6_VALUES:
                a([{t: '%s%d' % (op, v)}], fam='flowspec6-operator')
    for op1 in FS6_OPS:
        for op2 in FS6_OPS:
            a([{5: '%s80&%s90' % (op1, op2)}], fam='flowspec6-and')
            a([{5: '%s80|%s90' % (op1, op2)}], fam='flowspec6-operator')
            a([{10: '=254|%s254&%s300' % (op1, op2)}], fam='flowspec6-and')
            a([{6: '%s1&%s65536&=7|=9' % (op1, op2)}], fam='flowspec6-and')
            a([{6: '=9|%s1&%s65536' % (op1, op2)}], fam='flowspec6-and')
    for text in ['', '=', '80', '=80|', '|=80', '&=80', '=80&', '=8x', '>=<=5', '==5', '=1|=2|', '||', '=-1', '= 5']:
        a([{5: text}], fam='flowspec6-odd-text')
    a([{1: {'prefix': '2001:db8::/32', 'offset': 0}, 3: '=6', 5: '=80|=443', 13: '=1000'}])
    a([{3: '=6'}, {3: '=17'}])
    a([{3: '=6'}], unreach=True)
    a([], unreach=True)
    a([])
    a([{}])
    a([{0: '=1'}])
    a([{14: '=1'}])
    a([{'3': '=6'}])
    # the 1-octet / 2-octet length boundary and the 12-bit limit
    for L in (238, 239, 240, 241, 255, 256, 4094, 4095, 4096, 4097):
        for m in (1, 2, 3):
            if (L - 2 - 2 * m) % 3 == 0 and (L - 2 - 2 * m) // 3 >= 1:
                k = (L - 2 - 2 * m) // 3
                a([{3: '|'.join('=%d' % (i % 200) for i in range(m)), 5: '|'.join('=%d' % (1000 + (i % 60000)) for i in range(k))}],
                  fam='flowspec6-length')
                a([{3: '|'.join('=%d' % (i % 200) for i in range(m)), 5: '|'.join('=%d' % (1000 + (i % 60000)) for i in range(k))},
                   {3: '=6'}], fam='flowspec6-length')
                break
    for _ in range(n_rand):
        rule = {}
        if r.random() < 0.5:
            addr, ln = r.choice(FS6_PREFIXES[:9])
            rule[r.choice([1, 2])] = {'prefix': '%s/%d' % (addr, ln), 'offset': r.choice([0, 0, 8, 16, r.randint(0, max(ln, 1))])}
        for t in r.sample(range(3, 14), r.randint(0, 4)):
            groups = []
            for _g in range(r.choice([1, 1, 2, 3])):
                groups.append('&'.join('%s%d' % (r.choice(FS6_OPS), r.choice(FS6_VALUES[:12]))
                                       for _i in range(r.choice([1, 1, 2, 3]))))
            rule[t] = '|'.join(groups)
        a([rule], fam='flowspec6-random', unreach=r.random() < 0.2)
    return out


def canon_rules6(r, n_rand):
    """(nexthop, rules) in the canonical shape of `c08.flow6.reach` (Model/Construct/Flow.lean)"""
    A = [[6, 0], [6, 0x20010db8 << 96], [6, (0x20010db8 << 96) | (1 << 95)], [6, (0x20010db800010002 << 64)], [6, (0x20010db8 << 96) | 1],
         [6, 0xfe80 << 112], [6, 0xff << 120], [6, 2 ** 128 - 1], [6, int('a5' * 16, 16)], [4, 0x01020300]]
    out = []
    for a in A:
        for ln in (0, 1, 7, 8, 9, 32, 33, 63, 64, 65, 127, 128, 129, -1):
            for off in sorted(set([0, 1, 3, 7, 8, 9, 16, 31, 32, 33, 64, ln, ln - 1, ln + 1, 128, -1])):
                for t in (1, 2):
                    out.append((None, [[[t, {'prefix': a, 'len': ln, 'offset': off}]]]))
    out.append((None, [[[1, {'prefix': A[1], 'len': 32, 'offset': 0}], [2, {'prefix': A[3], 'len': 64, 'offset': 16}]]]))
    for t in range(3, 15):
        for op in FS6_OPS:
            for v in FS6_VALUES:
                out.append((None, [[[t, '%s%d' % (op, v)]]]))
    for op1 in FS6_OPS:
        for op2 in FS6_OPS:
            for text in ('%s80&%s90', '%s80|%s90', '=254|%s254&%s300', '%s1&%s65536&=7|=9', '=9|%s1&%s65536'):
                out.append((None, [[[5, text % (op1, op2)]]]))
    for text in ['', '=', '80', '=80|', '|=80', '&=80', '=80&', '=8x', '>=<=5', '==5', '=1|=2|', '||', '=1&&=2', '5>', '=080']:
        out.append((None, [[[5, text]]]))
        out.append((None, [[[3, '=6'], [5, text]]]))
    for nh in (None, [4, 0x0a000001], [6, 1], [6, 2 ** 128 - 1]):
        out.append((nh, [[[1, {'prefix': A[1], 'len': 32, 'offset': 0}], [3, '=6'], [5, '=80|=443'], [13, '=1000']]]))
        out.append((nh, [[[3, '=6']], [[3, '=17']]]))
        out.append((nh, []))
        out.append((nh, [[]]))
    out.append((None, [[[0, '=1']]]))
    out.append((None, [[[14, '=1']]]))
    out.append((None, [[[1, '=1']]]))
    out.append((None, [[[3, {'prefix': A[1], 'len': 32, 'offset': 0}]]]))
    for L in (238, 239, 240, 241, 255, 256, 4094, 4095, 4096, 4097):
        for m in (1, 2, 3):
            if (L - 2 - 2 * m) % 3 == 0 and (L - 2 - 2 * m) // 3 >= 1:
                k = (L - 2 - 2 * m) // 3
                rule = [[3, '|'.join('=%d' % (i % 200) for i in range(m))], [5, '|'.join('=%d' % (1000 + (i % 60000)) for i in range(k))]]
                out.append((None, [rule]))
                out.append((None, [rule, [[3, '=6']]]))
                break
    for _ in range(n_rand):
        rule = []
        if r.random() < 0.5:
            ln = r.choice([0, 8, 32, 33, 64, 127, 128])
            rule.append([r.choice([1, 2]), {'prefix': r.choice(A[:9]), 'len': ln, 'offset': r.choice([0, 0, 8, r.randint(0, max(ln, 1))])}])
        for t in sorted(r.sample(range(3, 14), r.randint(0, 4))):
            groups = ['&'.join('%s%d' % (r.choice(FS6_OPS), r.choice(FS6_VALUES[:14])) for _i in range(r.choice([1, 1, 2, 3])))
                      for _g in range(r.choice([1, 1, 2, 3]))]
            rule.append([t, '|'.join(groups)])
        r.shuffle(rule)
        out.append((r.choice([None, [4, 1], [6, 1]]), [rule] * r.choice([1, 1, 2])))
    return out


# ------------------------------------------------------------------------------------------------ C07 spaces

def mp_cases(r, tier):
    """the value spaces of suites/mpnlri.py (IPv6 unicast, labeled unicast, VPNv4/v6) through Update.construct"""
    from suites import mpnlri as M
    import impl_mp as IM
    out = []
    cases = M.value_cases(r, tier)
    for attr, v in cases:
        try:
            py = IM.reach_py(v) if attr == 14 else IM.unreach_py(v)
        except Exception:
            continue
        fam = 'mp-%s-%d-%d' % ('reach' if attr == 14 else 'unreach', v['afi_safi'][0], v['afi_safi'][1])
        attrs = with_base({attr: py}) if attr == 14 else {attr: py}
        out.append((fam, {'attr': attrs}, False, False, (attr, v)))
    return out


def evf_cases(r, tier):
    """EVPN routes and IPv4 flow specifications of suites/evf.py through Update.construct"""
    from suites import evf as E
    import impl_evf as IE
    out = []
    routes = E.systematic_routes() + [E.rnd_route(r, in_range=r.random() < 0.8) for _ in range(300 if tier == 'quick' else 20000)]
    for i, rt in enumerate(routes):
        try:
            py = IE.p_route(rt)
        except Exception:
            continue
        nh = [V4[2], V6[2], V4[3]][i % 3]
        fam = 'evpn-type-%s' % rt.get('type')
        out.append((fam, {'attr': with_base({14: {'afi_safi': (25, 70), 'nexthop': nh, 'nlri': [py]}})}, False, False))
        if i % 4 == 0:
            out.append((fam, {'attr': {15: {'afi_safi': (25, 70), 'withdraw': [py]}}}, False, False))
    for i in range(0, len(routes) - 3, 3):
        try:
            pys = [IE.p_route(x) for x in routes[i:i + 3]]
        except Exception:
            continue
        out.append(('evpn-list', {'attr': with_base({14: {'afi_safi': (25, 70), 'nexthop': V4[2], 'nlri': pys}})}, False, False))
    rules = E.systematic_rules()
    if tier == 'quick':
        rules = rules[::2]
    # the 1-octet / 2-octet NLRI length boundary and the 12-bit limit are never sampled away
    rules += [E.rule_of_len(L) for L in (237, 238, 239, 240, 241, 242, 243, 255, 256, 257, 4094, 4095, 4096)]
    rules += [[[t, E.ops_text(E.rnd_groups(r))] for t in r.sample(E.FS_OP_TYPES, r.randint(1, 4))]
              for _ in range(300 if tier == 'quick' else 20000)]
    for t in E.FS_OP_TYPES:
        for text in E.ODD_TEXTS:
            rules.append([[t, text]])
    # prefix components whose length / family the address part alone does not show
    for t in (1, 2):
        for p in ('10.0.0.0/33', '10.0.0.0/40', '10.0.0.0/255', '10.0.0.0/256', '10.0.0.0/-1', '::/0', '::1/128', '2001:db8::/32',
                  '10.0.0.0/32', '0.0.0.0/0', '10.0.0.0', '10.0.0.0/8/8'):
            rules.append([[t, p]])
            rules.append([[t, p], [5, '=80']])
    for i, pairs in enumerate(rules):
        py = IE.p_rule(pairs)
        nh = ['', V4[2], V6[2]][i % 3]
        out.append(('flowspec4', {'attr': with_base({14: {'afi_safi': (1, 133), 'nexthop': nh, 'nlri': [py]}})}, False, False))
        if i % 4 == 0:
            out.append(('flowspec4', {'attr': {15: {'afi_safi': (1, 133), 'withdraw': [py]}}}, False, False))
    return out


# ------------------------------------------------------------------------------------------------ harvested from the tests

NLRI_CLASSES = {'EVPN': (25, 70), 'IPv4MPLSVPN': (1, 128), 'IPv6MPLSVPN': (2, 128), 'IPv6Unicast': (2, 1),
                'IPv4LabeledUnicast': (1, 4), 'IPv6LabeledUnicast': (2, 4), 'IPv4SRTE': (1, 73), 'IPv4FlowSpec': (1, 133),
                'IPv6FlowSpec': (2, 133)}
ATTR_CLASSES = {'Origin': 1, 'ASPath': 2, 'NextHop': 3, 'MED': 4, 'LocalPreference': 5, 'AtomicAggregate': 6, 'Aggregator': 7,
                'Community': 8, 'OriginatorID': 9, 'ClusterList': 10, 'MpReachNLRI': 14, 'MpUnReachNLRI': 15, 'ExtCommunity': 16,
                'PMSITunnel': 22, 'TunnelEncaps': 23, 'LargeCommunity': 32}
NEXTHOPS = {(25, 70): '10.75.44.254', (1, 128): {'rd': '0:0', 'str': '2.2.2.2'}, (2, 128): {'rd': '100:12', 'str': '::ffff:172.16.4.12'},
            (2, 1): '2001:db8::1', (1, 4): '10.0.0.1', (2, 4): '2001:db8::1', (1, 73): '10.0.0.1', (1, 133): '', (2, 133): ''}


def harvested_cases():
    calls, values = IC.harvest()
    out = []
    for c in calls:
        cls, args, kw = c['cls'], c['args'], c['kwargs']
        where = c['where']
        if cls == 'Update' and args and isinstance(args[0], dict):
            out.append(('harvested-update', args[0], bool(kw.get('asn4', args[1] if len(args) > 1 else False)),
                        bool(kw.get('addpath', False)), where))
        elif cls in ATTR_CLASSES:
            v = kw.get('value', args[0] if args else None)
            code = ATTR_CLASSES[cls]
            asn4 = bool(kw.get('asn4', False))
            out.append(('harvested-attr-%d' % code, {'attr': {code: v}}, asn4, False, where))
            out.append(('harvested-attr-%d' % code, {'attr': with_base({code: v}), 'nlri': ['10.0.0.0/8']}, asn4, False, where))
        elif cls in NLRI_CLASSES:
            fam = NLRI_CLASSES[cls]
            v = kw.get('value', kw.get('nlri_list', kw.get('data', args[0] if args else None)))
            out.append(('harvested-nlri-%d-%d' % fam, {'attr': with_base({14: {'afi_safi': fam, 'nexthop': NEXTHOPS[fam], 'nlri': v}})},
                        False, False, where))
            out.append(('harvested-nlri-%d-%d' % fam, {'attr': {15: {'afi_safi': fam, 'withdraw': v}}}, False, False, where))
    for x in values:
        v = x['value']
        if isinstance(v, dict) and 'afi_safi' in v:
            code = 14 if 'nlri' in v else 15
            out.append(('harvested-mp-%d' % code, {'attr': with_base({code: v}) if code == 14 else {code: v}}, False, False, x['where']))
        elif isinstance(v, dict) and ('attr' in v or 'nlri' in v or 'withdraw' in v) and not ('afi_safi' in v):
            for asn4 in (False, True):
                out.append(('harvested-update', v, asn4, False, x['where']))
        elif isinstance(v, dict) and v and all(isinstance(k, int) for k in v) and any(k in ATTR_CLASSES.values() for k in v):
            for asn4 in (False, True):
                out.append(('harvested-attrs', {'attr': v, 'nlri': ['10.0.0.0/8']}, asn4, False, x['where']))
    return out


# ------------------------------------------------------------------------------------------------ combined messages

def combined_cases(r, n, pools):
    """random UPDATEs mixing standard attributes, one MP attribute, extended communities, PMSI / tunnel, NLRI"""
    out = []
    mp = [c for c in pools if 14 in c[1].get('attr', {}) or 15 in c[1].get('attr', {})]
    ext = [c for c in pools if 16 in c[1].get('attr', {})]
    tun = [c for c in pools if 23 in c[1].get('attr', {}) or 22 in c[1].get('attr', {})]
    for _ in range(n):
        asn4 = r.random() < 0.5
        m = G.rnd_update(r, asn4)
        attrs = ICD.to_py_attrs(m.get('attr', []))
        for pool, codes in ((mp, (14, 15)), (ext, (16,)), (tun, (22, 23))):
            if pool and r.random() < 0.6:
                src = r.choice(pool)[1]['attr']
                for k in codes:
                    if k in src:
                        attrs[k] = src[k]
        items = list(attrs.items())
        r.shuffle(items)
        msg = {'attr': dict(items)}
        for k in ('nlri', 'withdraw'):
            if k in m:
                msg[k] = m[k]
        out.append(('combined', msg, asn4, False))
    return out


# ------------------------------------------------------------------------------------------------ OPEN etc.

def open_cases(r, n):
    from suites import openmsg as O
    out = []
    for asn in O.AS_POOL + [0, 2 ** 32]:
        for hold in (0, 3, 180, 65535, 65536):
            out.append((4, asn, hold, 0x01020304, {}))
            out.append((4, asn, hold, 0xffffffff, {'four_bytes_as': True, 'afi_safi': [(1, 1)], 'route_refresh': True}))
    for k in range(0, 45):
        out.append((4, 65001, 180, 1, {'afi_safi': [(1, 1)] * k}))
        out.append((4, 65001, 180, 1, {'ext_nexthop': [{'afi_safi': [1, 1], 'nexthop_afi': 2}] * k}))
        out.append((4, 70000, 180, 1, {'afi_safi': [(1, 1)] * (k // 2), 'ext_nexthop': [{'afi_safi': [1, 1], 'nexthop_afi': 2}] * k,
                                       'add_path': 'ipv4_both', 'enhanced_route_refresh': True, 'cisco_route_refresh': True,
                                       'route_refresh': True}))
    for ap in ('ipv4_receive', 'ipv4_send', 'ipv4_both', 'bogus', '', 3):
        out.append((4, 65001, 180, 1, {'add_path': ap}))
    for fam in ((65535, 255), (65536, 1), (1, 256), (-1, 1)):
        out.append((4, 65001, 180, 1, {'afi_safi': [fam]}))
        out.append((4, 65001, 180, 1, {'ext_nexthop': [{'afi_safi': list(fam), 'nexthop_afi': 2}]}))
    out.append((4, 65001, 180, 1, {'ext_nexthop': [{'afi_safi': [1, 1], 'nexthop_afi': 65536}]}))
    out.append((4, 65001, 180, 1, {'graceful_restart': True, 'cisco_multi_session': True, 'LLGR': [], 'unknown': 1}))
    for v in (0, 3, 4, 255, 256):
        out.append((v, 65001, 180, 1, {'route_refresh': True}))
    for bid in (0, 1, 2 ** 32 - 1, 2 ** 32):
        out.append((4, 65001, 180, bid, {}))
    for _ in range(n):
        caps = ICD.py_local_caps(O.rnd_local_caps(r))
        out.append((4, r.choice(O.AS_POOL + [r.getrandbits(32) or 1]), r.choice(O.HOLD_POOL + [r.getrandbits(16)]),
                    r.choice(G.ADDRS[1:] + [r.getrandbits(32) or 1]), caps))
    return out


# ------------------------------------------------------------------------------------------------ (a) the models

def model_part(res, r, tier, driver, walker):
    """model constructors vs the real code (light) and the walker on what the MODEL constructs (theorem instances)"""
    from suites import update as U
    from suites import openmsg as O
    ccases = U.construct_inputs(r, 'quick')
    if tier == 'quick':
        ccases = ccases[::3]
    # add-path with and without path identifiers (the guard of fix_2), both AS widths
    for p in ('10.0.0.0/8', '0.0.0.0/0', '1.2.3.4/32'):
        for asn4 in (False, True):
            ccases.append(({'attr': [[1, 0]], 'nlri': [p]}, asn4, True, False))
            ccases.append(({'attr': [[1, 0]], 'nlri': [{'prefix': p, 'path_id': 7}, p]}, asn4, True, False))
            ccases.append(({'withdraw': [p, {'prefix': p, 'path_id': 7}]}, asn4, True, False))
            ccases.append(({'attr': [[1, 0]], 'nlri': [{'prefix': p, 'path_id': 7}], 'withdraw': [{'prefix': p, 'path_id': 2 ** 32 - 1}]},
                           asn4, True, False))
    reqs = [{'op': 'c08.upd.construct', 'asn4': a, 'addpath': ap, 'msg': m} for (m, a, ap, _) in ccases]
    try:
        mres = walker.batch(reqs)
    except Exception as e:
        res.notes.append('model part skipped: %s' % e)
        return
    walks = []
    for (m, asn4, addpath, _), mo in zip(ccases, mres):
        if 'error' in mo or 'unmodelled' in jdump(mo) or 'badvalue' in jdump(mo):
            res.stats.skipped += 1
            continue
        io = ICD.upd_construct(m, asn4, addpath)
        res.stats.case(('mc', jdump(m), asn4, addpath), nontrivial=bool(m))
        if io != mo:
            res.disagree('Update.construct (guarded model constructUpdateR)', {'msg': m, 'asn4': asn4, 'addpath': addpath}, io, mo)
        if 'hex' in mo:
            walks.append(('constructUpdateR', {'msg': m, 'asn4': asn4, 'addpath': addpath}, mo['hex'], asn4, addpath))
    ocases = []
    for _ in range(150 if tier == 'quick' else 5000):
        ocases.append((4, r.choice(O.AS_POOL + [r.getrandbits(32) or 1]), r.choice(O.HOLD_POOL), r.choice(G.ADDRS[1:]),
                       O.rnd_local_caps(r)))
    mres = driver.batch([{'op': 'open.construct', 'version': v, 'asn': a, 'hold_time': h, 'bgp_id': b, 'caps': c}
                         for (v, a, h, b, c) in ocases])
    for (v, a, h, b, c), mo in zip(ocases, mres):
        io = ICD.open_construct(v, a, h, b, c)
        res.stats.case(('mo', v, a, h, b, jdump(c)))
        if io != mo:
            res.disagree('Open.construct', {'open': [v, a, h, b, c]}, io, mo)
        if 'hex' in mo:
            walks.append(('constructOpen', [v, a, h, b, c], mo['hex'], False, False))
    for e, s, d in ((1, 1, b''), (2, 2, b'\x00\x02'), (6, 0, b'x' * 100), (255, 255, b''), (256, 0, b''), (3, 5, b'\x00' * 4070)):
        mo = driver.call({'op': 'notif.construct', 'error': e, 'sub': s, 'data': d.hex()})
        io = ICD.notif_construct(e, s, d)
        res.stats.case(('mn', e, s, d.hex()))
        if io != mo:
            res.disagree('Notification.construct', [e, s, d.hex()], io, mo)
        if 'hex' in mo:
            walks.append(('constructNotification', [e, s], mo['hex'], False, False))
    mo = driver.call({'op': 'keepalive.construct'})
    if mo != ICD.keepalive_construct():
        res.disagree('KeepAlive.construct', None, ICD.keepalive_construct(), mo)
    walks.append(('constructKeepalive', None, mo['hex'], False, False))
    for ty in (5, 128):
        for afi, rs, safi in ((1, 0, 1), (2, 0, 128), (65535, 255, 255), (65536, 0, 1)):
            mo = driver.call({'op': 'rr.construct', 'type': ty, 'afi': afi, 'res': rs, 'safi': safi})
            io = ICD.rr_construct(ty, afi, rs, safi)
            res.stats.case(('mr', ty, afi, rs, safi))
            if io != mo:
                res.disagree('RouteRefresh.construct', [ty, afi, rs, safi], io, mo)
            if 'hex' in mo:
                walks.append(('constructRouteRefresh', [ty, afi, rs, safi], mo['hex'], False, False))
    # the MP constructors with the guards of the repaired code (Model/Construct/MpGuard.lean), as attributes
    from suites import mpnlri as M
    import impl_mp as IM
    probe = walker.call({'op': 'c08.mp.construct', 'attr': 15, 'value': {'afi_safi': [2, 1], 'withdraw': []}})
    if 'error' not in probe:
        mcases = M.value_cases(r, 'quick')
        mcases = mcases[::5] if tier == 'quick' else mcases
        mres = walker.batch([{'op': 'c08.mp.construct', 'attr': a, 'value': v} for a, v in mcases])
        awalks = []
        for (attr, v), mo in zip(mcases, mres):
            if 'error' in mo:
                res.stats.skipped += 1
                continue
            io = IM.mp_construct(attr, v)
            res.stats.case(('mm', attr, jdump(v)))
            if 'unmodelled' in io:
                continue
            if io != mo:
                res.disagree('MpReachNLRI/MpUnReachNLRI.construct (guarded model)', {'attr': attr, 'value': v}, io, mo)
            if 'hex' in mo:
                awalks.append((attr, v, mo['hex']))
        outs = walker.batch([{'op': 'spec.walk.attr', 'hex': h} for (_, _, h) in awalks])
        for (attr, v, h), o in zip(awalks, outs):
            res.stats.hit('model_attr_walked')
            if not o.get('valid'):
                res.disagree('the MODEL constructs an attribute that does not walk (C08_mp_* instance)',
                             {'attr': attr, 'value': v, 'hex': h}, None, o)
    else:
        res.notes.append('c08.mp.construct not dispatched by this driver: guarded MP model not exercised')
    # the EVPN constructors with the guards of fix_9 / fix_12 / fix_13 (Model/Construct/EvpnGuards.lean)
    probe = walker.call({'op': 'c08.evpn.construct', 'routes': []})
    if 'error' not in probe:
        from suites import evf as E
        import impl_evf as IE
        lists = [[x] for x in E.systematic_routes()]
        for _ in range(200 if tier == 'quick' else 10000):
            lists.append([E.rnd_route(r, in_range=r.random() < 0.85) for _ in range(r.choice([1, 1, 2, 3, 5]))])
        mres = walker.batch([{'op': 'c08.evpn.construct', 'routes': l} for l in lists])
        ewalks = []
        for l, mo in zip(lists, mres):
            if 'error' in mo or 'unmodelled' in mo:
                res.stats.skipped += 1
                continue
            io = IE.evpn_construct(l)
            res.stats.case(('me', jdump(l)))
            if io != mo:
                res.disagree('EVPN.construct (guarded model constructRoutesR)', {'routes': l}, io, mo)
            if mo.get('hex'):
                ewalks.append((l, mo['hex']))
        # as the NLRI of an MP_UNREACH_NLRI attribute: 90 0f len(2) 00 19 46 nlri
        reqs = []
        for l, h in ewalks:
            v = bytes([0, 25, 70]) + bytes.fromhex(h)
            reqs.append({'op': 'spec.walk.attr', 'hex': (bytes([0x90, 15]) + struct.pack('!H', len(v)) + v).hex()})
        for (l, h), o in zip(ewalks, walker.batch(reqs)):
            res.stats.hit('model_evpn_walked')
            if not o.get('valid'):
                res.disagree('the MODEL constructs EVPN routes that do not walk (C08b_evpn_routes instance)',
                             {'routes': l, 'hex': h}, None, o)
    else:
        res.notes.append('c08.evpn.construct not dispatched by this driver: guarded EVPN model not exercised')
    # SR policy NLRI and PMSI tunnel (Model/Construct/SrtePmsi.lean)
    probe = walker.call({'op': 'c08.srte.construct', 'attr': 15, 'nlri': None})
    if 'error' not in probe:
        c = IC.bgp_cons
        ips = [[4, 0], [4, 0x0a000009], [4, 2 ** 32 - 1], [6, 0], [6, 1], [6, 2 ** 128 - 1], [6, 0x20010db8 << 96]]
        scases = []
        for ep in ips:
            for d, col in ((0, 0), (1, 100), (2 ** 32 - 1, 2 ** 32 - 1), (2 ** 32, 1), (1, 2 ** 32)):
                n = {'distinguisher': d, 'color': col, 'endpoint': ep}
                for nh in ips[1:2] + ips[4:5] + [None]:
                    scases.append({'op': 'c08.srte.construct', 'attr': 14, 'nexthop': nh, 'nlri': n})
                scases.append({'op': 'c08.srte.construct', 'attr': 15, 'nlri': n})
        scases.append({'op': 'c08.srte.construct', 'attr': 15, 'nlri': None})
        awalks = []
        for q, mo in zip(scases, walker.batch(scases)):
            io = IC.srte_construct(q['attr'], q.get('nexthop'), q['nlri'])
            res.stats.case(('ms', jdump(q)))
            if io != mo:
                res.disagree('SR policy NLRI through MpReachNLRI / MpUnReachNLRI.construct', q, io, mo)
            if 'hex' in mo:
                awalks.append((q, mo['hex']))
        evpn_reach = {'afi_safi': (25, 70), 'nexthop': '10.75.44.254', 'nlri': []}
        pcases = []
        for kind, ad in (('mpls', {}), ('vni', {14: evpn_reach, 16: [[c.BGP_EXT_COM_DICT['encapsulation'], 8]]}),
                         ('vni', {14: evpn_reach, 16: [[c.BGP_EXT_COM_DICT['encapsulation'], 9]]}),
                         ('unsupported', {14: evpn_reach, 16: [[c.BGP_EXT_COM_DICT['encapsulation'], 10]]}),
                         ('mpls', {14: evpn_reach, 16: [[c.BGP_EXT_COM_RT_0, '1:1']]}),
                         ('mpls', {16: [[c.BGP_EXT_COM_DICT['encapsulation'], 8]]})):
            assert IC.pmsi_overlay_kind(ad) == kind, (kind, ad)
            for ty in (0, 1, 5, 6, 7, 255, 256):
                for leaf in (0, 1, 255, 256):
                    for label in (0, 1, 2 ** 20 - 1, 2 ** 20, 2 ** 24 - 1, 2 ** 24, 2 ** 28 - 1, 2 ** 28, 2 ** 32 - 1, 2 ** 32, None):
                        for tid in (ips[1], ips[4], None):
                            pcases.append((ad, {'op': 'c08.pmsi.construct', 'overlay': kind, 'leaf': leaf, 'type': ty,
                                                'label': label, 'tunnel_id': tid}))
        for (ad, q), mo in zip(pcases, walker.batch([q for _, q in pcases])):
            io = IC.pmsi_construct(ad, q['leaf'], q['type'], q['label'], q['tunnel_id'])
            res.stats.case(('mp', jdump(q), jdump(IC.jsonable(ad))))
            if io != mo:
                res.disagree('PMSITunnel.construct', q, io, mo)
            if 'hex' in mo:
                awalks.append((q, mo['hex']))
        for (q, h), o in zip(awalks, walker.batch([{'op': 'spec.walk.attr', 'hex': h} for _, h in awalks])):
            res.stats.hit('model_srte_pmsi_walked')
            if not o.get('valid'):
                res.disagree('the MODEL constructs an attribute that does not walk (C08c instance)', {'case': q, 'hex': h}, None, o)
        # tunnel encapsulation (Model/Construct/Tunnel.lean)
        pols = canon_policies(r, 300 if tier == 'quick' else 20000)
        twalks = []
        for q, mo in zip(pols, walker.batch([{'op': 'c08.tunnel.construct', 'policy': q} for q in pols])):
            if 'error' in mo:
                res.disagree('c08.tunnel.construct', q, None, mo)
                continue
            io = IC.tunnel_construct(q)
            res.stats.case(('mt', jdump(q)))
            res.stats.hit('tunnel_model_' + ('ok' if 'hex' in mo else 'raise'))
            if io != mo:
                res.disagree('TunnelEncaps.construct', q if len(jdump(q)) < 2000 else {'big': jdump(q)[:300]}, io if len(jdump(io)) < 2000 else 'big',
                             mo if len(jdump(mo)) < 2000 else 'big')
            if 'hex' in mo:
                twalks.append((q, mo['hex']))
        for (q, h), o in zip(twalks, walker.batch([{'op': 'spec.walk.attr', 'hex': h} for _, h in twalks])):
            res.stats.hit('model_tunnel_walked')
            if not o.get('valid'):
                res.disagree('the MODEL constructs a tunnel attribute that does not walk (C08c_tunnel instance)',
                             {'case': q if len(jdump(q)) < 2000 else 'big', 'hex': h[:400]}, None, o)
        # IPv6 flow specification (Model/Construct/Flow.lean)
        f6 = canon_rules6(r, 300 if tier == 'quick' else 20000)
        fwalks = []
        for (nh, rules), mo in zip(f6, walker.batch([{'op': 'c08.flow6.reach', 'nexthop': nh, 'rules': rules} for nh, rules in f6])):
            if 'error' in mo or 'unmodelled' in mo:
                res.stats.skipped += 1
                continue
            io = IC.flow6_construct(nh, rules)
            res.stats.case(('mf6', jdump(nh), jdump(rules)))
            res.stats.hit('flow6_model_' + ('ok' if 'hex' in mo else 'none' if 'none' in mo else 'raise'))
            if io != mo:
                res.disagree('IPv6 flow specification through MpReachNLRI.construct', {'nexthop': nh, 'rules': rules if len(jdump(rules)) < 2000 else 'big'},
                             io if len(jdump(io)) < 2000 else 'big', mo if len(jdump(mo)) < 2000 else 'big')
            if 'hex' in mo:
                fwalks.append((rules, mo['hex']))
        for (rules, h), o in zip(fwalks, walker.batch([{'op': 'spec.walk.attr', 'hex': h} for _, h in fwalks])):
            res.stats.hit('model_flow6_walked')
            if not o.get('valid'):
                res.disagree('the MODEL constructs an IPv6 flow specification that does not walk (C08c_flowspec6_reach instance)',
                             {'rules': rules if len(jdump(rules)) < 2000 else 'big', 'hex': h[:400]}, None, o)
        # IPv4 flow specification: builder EVF's model behind the guard of fix_14
        from suites import evf as E
        import impl_evf as IE
        rules4 = E.systematic_rules()
        rules4 = rules4[::3] if tier == 'quick' else rules4
        for t in (1, 2):
            for p in ('10.0.0.0/33', '10.0.0.0/40', '10.0.0.0/255', '10.0.0.0/32', '0.0.0.0/0'):
                rules4.append([[t, p]])
                rules4.append([[t, p], [5, '=80']])
        vals = [{'afi_safi': [1, 133], 'nexthop': ['', [4, 0x0a000001], [6, 1]][i % 3], 'nlri': [pairs]} for i, pairs in enumerate(rules4)]
        f4walks = []
        for v, mo in zip(vals, walker.batch([{'op': 'c08.evf.mpreach.construct', 'value': v} for v in vals])):
            if 'error' in mo or 'unmodelled' in mo:
                res.stats.skipped += 1
                continue
            io = IE.mpreach_construct(v)
            res.stats.case(('mf4', jdump(v)))
            if io != mo:
                res.disagree('IPv4 flow specification through MpReachNLRI.construct (guarded model)', v if len(jdump(v)) < 2000 else 'big',
                             io if len(jdump(io)) < 2000 else 'big', mo if len(jdump(mo)) < 2000 else 'big')
            if 'hex' in mo:
                f4walks.append((v, mo['hex']))
        for (v, h), o in zip(f4walks, walker.batch([{'op': 'spec.walk.attr', 'hex': h} for _, h in f4walks])):
            res.stats.hit('model_flow4_walked')
            if not o.get('valid'):
                res.disagree('the MODEL constructs an IPv4 flow specification that does not walk (C08b_flowspec_reach instance)',
                             {'value': v if len(jdump(v)) < 2000 else 'big', 'hex': h[:400]}, None, o)
    else:
        res.notes.append('c08.srte.construct not dispatched by this driver: SR policy / PMSI / tunnel / flow models not exercised')
    # extended communities: builder XC's model behind the guard of fix_5 (Model/Construct/ExtCommGuard.lean).  Link
    # bandwidth (16388) is left out: XC's model has it as a float, which /repo only does after XC's own repair.
    probe = walker.call({'op': 'c08.extcomm.construct', 'items': []})
    if 'error' not in probe:
        xcases = []
        for (_, msg, _, _) in extcomm_cases():
            items = msg['attr'][16]
            if isinstance(items, list) and not any(isinstance(i, list) and i and i[0] == 16388 for i in items):
                # the model covers the item shapes the REST layer produces: color / encapsulation values as text
                xcases.append([[i[0], str(i[1])] if (len(i) == 2 and i[0] in (779, 780, 51052544, 51068928, 51085312, 51101696)
                                                     and isinstance(i[1], int)) else i for i in items])
        xwalks = []
        for items, mo in zip(xcases, walker.batch([{'op': 'c08.extcomm.construct', 'items': IC.jsonable(i)} for i in xcases])):
            if 'error' in mo:
                res.stats.skipped += 1
                continue
            io = IC.extcomm_construct(items)
            res.stats.case(('mx', jdump(IC.jsonable(items))))
            if io != mo:
                res.disagree('ExtCommunity.construct (guarded model constructR)', IC.jsonable(items), io, mo)
            if 'hex' in mo:
                xwalks.append((items, mo['hex']))
        for (items, h), o in zip(xwalks, walker.batch([{'op': 'spec.walk.attr', 'hex': h} for _, h in xwalks])):
            res.stats.hit('model_extcomm_walked')
            if not o.get('valid'):
                res.disagree('the MODEL constructs an EXTENDED COMMUNITIES attribute that does not walk (C08d instance)',
                             {'items': IC.jsonable(items), 'hex': h}, None, o)
    else:
        res.notes.append('c08.extcomm.construct not dispatched by this driver: extended-community model not exercised')
    outs = walker.batch([{'op': 'spec.walk', 'hex': h, 'asn4': a, 'addpath': ap} for (_, _, h, a, ap) in walks])
    for (what, case, h, a, ap), o in zip(walks, outs):
        res.stats.hit('model_walked')
        if not o.get('valid'):
            res.disagree('the MODEL constructs a message that does not walk (%s; C08 theorem instance)' % what,
                         {'case': case, 'hex': h, 'asn4': a, 'addpath': ap}, None, o)


# ------------------------------------------------------------------------------------------------ run

def oracle_cases(r, tier):
    from suites import update as U
    n = 1 if tier == 'quick' else 20
    cases = []
    for (m, asn4, addpath, _) in U.construct_inputs(r, tier if tier != 'search' else 'quick'):
        msg = {}
        if 'attr' in m:
            msg['attr'] = ICD.to_py_attrs(m['attr'])
        for k in ('nlri', 'withdraw'):
            if k in m:
                msg[k] = m[k]
        cases.append(('c06-space', msg, asn4, addpath))
    cases += std_edge_cases()
    cases += extcomm_cases()
    cases += srte_cases()
    cases += tunnel_cases(r, 300 * n)
    cases += pmsi_cases()
    cases += fs6_cases(r, 400 * n)
    cases += [c[:4] for c in mp_cases(r, tier if tier != 'search' else 'quick')]
    cases += evf_cases(r, tier if tier != 'search' else 'quick')
    cases += [c[:4] for c in harvested_cases()]
    cases += combined_cases(r, 600 * n, cases)
    return cases


def run(seed, tier, driver):
    res = SuiteResult('construct')
    r = rng_for(seed, 'construct', tier)
    walker = IC.walk_driver(driver)
    if driver is not None:
        model_part(res, r, tier, driver, walker)
    orc = Oracle(res, walker)
    for (family, msg, asn4, addpath) in oracle_cases(r, tier):
        out = IC.update_construct(msg, asn4, addpath)
        orc.add(family, {'update': IC.jsonable(msg)}, out, asn4, addpath)
    for (v, a, h, b, c) in open_cases(r, 300 if tier == 'quick' else 20000):
        orc.add('open', {'open': [v, a, h, b, IC.jsonable(c)]}, IC.open_construct(v, a, h, b, c))
    for e in (0, 1, 2, 3, 4, 5, 6, 255, 256, -1):
        for s in (0, 1, 11, 255, 256):
            for d in (b'', b'\x00', b'\x00\x02', b'x' * 100, b'y' * 4075, b'z' * 4077, b'w' * 65514, b'v' * 65517):
                orc.add('notification', {'notification': [e, s, len(d)]}, IC.notification_construct(e, s, d))
    orc.add('keepalive', {'keepalive': None}, IC.keepalive_construct())
    for ty in (5, 128):
        for afi in (0, 1, 2, 25, 16388, 65535, 65536):
            for rs in (0, 1, 255, 256):
                for safi in (0, 1, 128, 255, 256):
                    orc.add('route-refresh', {'route_refresh': [ty, afi, rs, safi]}, IC.routerefresh_construct(ty, afi, rs, safi))
    orc.flush()
    return res


def replay_witness(witness, driver):
    """replay of a recorded known finding: witness = {'suite': 'construct', 'family':.., 'update': {...}, 'asn4':..}"""
    res = SuiteResult('construct')
    walker = IC.walk_driver(driver)
    orc = Oracle(res, walker)
    msg = msg_from_json(witness['update'])
    out = IC.update_construct(msg, witness.get('asn4', False), witness.get('addpath', False))
    orc.add(witness.get('family', 'witness'), {'update': witness['update']}, out, witness.get('asn4', False),
            witness.get('addpath', False))
    orc.flush()
    return res


def unjson(v):
    """inverse of impl_construct.jsonable for replays: attribute codes and digit keys back to ints where the code wants ints"""
    if isinstance(v, dict):
        if set(v) == {'bytes'}:
            return bytes.fromhex(v['bytes'])
        return dict((k, unjson(x)) for k, x in v.items())
    if isinstance(v, list):
        return [unjson(x) for x in v]
    return v


def msg_from_json(j):
    """the dictionary Update.construct takes from its JSON form in a replay file (attribute type codes are integers)"""
    msg = unjson(j)
    if isinstance(msg.get('attr'), dict):
        msg['attr'] = dict((int(k), v) for k, v in msg['attr'].items())
    return msg


def replay(path, driver):
    import json
    res = SuiteResult('construct')
    walker = IC.walk_driver(driver)
    orc = Oracle(res, walker)
    for f in json.load(open(path)).get('failures', []):
        rp = f['replay']
        if 'update' in rp.get('input', {}):
            msg = msg_from_json(rp['input']['update'])
            out = IC.update_construct(msg, rp.get('asn4', False), rp.get('addpath', False))
            orc.add(rp.get('family', 'replay'), rp['input'], out, rp.get('asn4', False), rp.get('addpath', False))
    orc.flush()
    return res
