"""Correspondence suite `update` (Model/Update.lean + Model/Attr.lean vs yabgp/message/update.py and the
standard attribute classes) and the C06 round-trip oracle evaluated on the real implementation."""
import itertools
import struct

from lib.base import SuiteResult, rng_for, has_unmodelled, jdump
from lib import astscan
from gen import values as G
import impl_codec as I


def _hdr_body(b):
    return b[19:]


def _attr_blob(flag, code, val, ext=False):
    if ext:
        return bytes([flag | 0x10, code]) + struct.pack('!H', len(val)) + val
    return bytes([flag, code, len(val) & 255]) + val


def _body(wd=b'', attrs=b'', nlri=b''):
    return struct.pack('!H', len(wd)) + wd + struct.pack('!H', len(attrs)) + attrs + nlri


FLAGS = {1: 0x40, 2: 0x40, 3: 0x40, 4: 0x80, 5: 0x40, 6: 0x40, 7: 0xc0, 8: 0xc0, 9: 0x80, 10: 0x80,
         17: 0xc0, 18: 0xc0, 32: 0xe0}


def parse_inputs(r, tier, corpus_bodies):
    """byte strings for Update.parse: (body, asn4, addpath)"""
    n_rand = 1500 if tier == 'quick' else 60000
    cases = []
    # (a) exhaustive small scopes: every attribute type code x value of length 0..2 (all octet values for
    # length <= 1, boundary octets for length 2), both AS modes; every 1-octet NLRI / withdrawn field
    small = [b''] + [bytes([x]) for x in range(256)]
    edge = [0, 1, 2, 3, 4, 5, 31, 32, 33, 127, 128, 254, 255]
    small2 = [bytes([a, b]) for a in edge for b in edge]
    codes = list(range(0, 34)) + [40, 41, 64, 128, 255]
    for code in codes:
        if code in I.UNMODELLED:
            continue
        vals = small + small2 if (tier != 'quick' or code in FLAGS) else small[:40]
        for v in vals:
            for asn4 in (False, True):
                cases.append((_body(attrs=_attr_blob(FLAGS.get(code, 0xc0), code, v)), asn4, False))
    for x in range(256):
        cases.append((_body(nlri=bytes([x])), False, False))
        cases.append((_body(wd=bytes([x])), False, False))
        cases.append((_body(nlri=bytes([x, 0xff])), False, False))
        cases.append((_body(nlri=bytes([0, 0, 0, 1, x])), False, True))
    # every prefix length 0..40 with 0..5 address octets following
    for ln in range(0, 41):
        for k in range(0, 6):
            cases.append((_body(nlri=bytes([ln]) + bytes([0xff] * k)), False, False))
            cases.append((_body(wd=bytes([ln]) + bytes([0xa5] * k), nlri=bytes([ln]) + bytes([0x5a] * k)), False, False))
    # truncated / inconsistent length fields
    for wl in (0, 1, 2, 3, 4, 5, 255, 65535):
        for al in (0, 1, 2, 3, 4, 255, 65535):
            for tail in (b'', b'\x00', b'\x18\x0a\x00\x00', b'\x40\x01\x01\x00'):
                cases.append((struct.pack('!H', wl) + tail[:wl] + struct.pack('!H', al) + tail, False, False))
    for n in range(0, 5):
        cases.append((b'\x00' * n, False, False))
    # (b) well-formed encodings of the attribute classes with each fixed length off by one
    for code, good in ((1, 1), (3, 4), (4, 4), (5, 4), (6, 0), (7, 6), (7, 8), (9, 4), (10, 8), (8, 8), (32, 12),
                       (18, 8), (17, 6), (2, 4), (2, 6)):
        for d in (-1, 0, 1, 2, 3, 4):
            ln = good + d
            if ln < 0:
                continue
            v = bytes([(i * 37 + 2) & 255 for i in range(ln)])
            if code in (2, 17) and ln >= 2:
                v = bytes([2, 1]) + v[2:]
            for asn4 in (False, True):
                cases.append((_body(attrs=_attr_blob(FLAGS[code], code, v)), asn4, False))
                cases.append((_body(attrs=_attr_blob(FLAGS[code], code, v, ext=True)), asn4, False))
    # (c) corpus: byte literals of the repo's own tests (bodies and whole messages), and their mutations
    for b in corpus_bodies:
        for asn4 in (False, True):
            cases.append((b, asn4, False))
        for _ in range(3 if tier == 'quick' else 40):
            cases.append((G.mutate(r, b), r.random() < 0.5, False))
    # (d) structured random: constructed by the implementation itself, then mutated
    for i in range(n_rand):
        asn4 = r.random() < 0.5
        addpath = r.random() < 0.15
        m = G.rnd_update(r, asn4)
        if addpath:
            for k in ('nlri', 'withdraw'):
                if k in m:
                    m[k] = [{'prefix': p, 'path_id': G.rnd_u32(r)} for p in m[k]]
        c = I.upd_construct(m, asn4, addpath)
        if 'hex' not in c:
            continue
        body = bytes.fromhex(c['hex'])[19:]
        cases.append((body, asn4, addpath))
        if r.random() < 0.3:
            cases.append((body, not asn4, addpath))
        for _ in range(2):
            cases.append((G.mutate(r, body), asn4, addpath))
    return cases


def construct_inputs(r, tier):
    n_rand = 1500 if tier == 'quick' else 60000
    cases = []
    # every prefix length x boundary addresses, alone and in lists
    allp = G.all_prefixes()
    for p in allp:
        cases.append(({'attr': [[1, 0], [2, []], [3, '10.0.0.1']], 'nlri': [p]}, False, False, True))
        cases.append(({'withdraw': [p]}, False, False, True))
    for i in range(0, len(allp) - 3, 3):
        cases.append(({'attr': [[1, 2]], 'nlri': allp[i:i + 3], 'withdraw': allp[i + 1:i + 3]}, False, False, True))
    # out-of-range / odd inputs the constructors must reject or skip
    for m in ({'attr': [[1, 3]]}, {'attr': [[1, 255]]}, {'attr': [[4, 2 ** 32]]}, {'attr': [[5, 2 ** 32]]},
              {'attr': [[2, [[2, [65536]]]]]}, {'attr': [[2, [[256, [1]]]]]}, {'attr': [[2, [[5, [1]]]]]},
              {'attr': [[7, [65536, '1.1.1.1']]]}, {'attr': [[8, ['65536:1']]]}, {'attr': [[8, ['1:65536']]]},
              {'attr': [[8, ['65535:65535'] * 64]]}, {'attr': [[10, ['1.1.1.1'] * 64]]},
              {'attr': [[32, ['1:2:3'] * 22]]}, {'attr': [[32, ['4294967296:1:1']]]},
              {'attr': [[2, [[2, list(range(256))]]]]}, {'attr': [[99, 'x']]}, {'attr': [[17, [[2, [1]]]]]},
              {'nlri': ['1.0.0.0/8']}, {}, {'attr': []}, {'nlri': [], 'withdraw': []},
              {'attr': [[1, 0]], 'nlri': ['10.0.0.0/33']}):
        for asn4 in (False, True):
            cases.append((m, asn4, False, False))
    for i in range(n_rand):
        asn4 = r.random() < 0.5
        addpath = r.random() < 0.15
        m = G.rnd_update(r, asn4)
        valid = True
        if addpath:
            for k in ('nlri', 'withdraw'):
                if k in m and r.random() < 0.9:
                    m[k] = [{'prefix': p, 'path_id': G.rnd_u32(r)} for p in m[k]]
                elif m.get(k):
                    # plain prefixes in add-path mode are sent without a path id (modelled, outside C06)
                    valid = False
        cases.append((m, asn4, addpath, valid))
    return cases


def expected_decode(m):
    """what decoding must return for a valid message `m` (C06): exactly the values given"""
    attrs = sorted(([k, v] for k, v in m.get('attr', [])), key=lambda kv: kv[0])
    return {'withdraw': list(m.get('withdraw', [])), 'nlri': list(m.get('nlri', [])), 'attr': attrs, 'sub_error': None}


def is_valid_c06(m, asn4):
    """in-range by the generator's construction; messages that exceed what one attribute / message can
    hold (1-octet attribute length, 4096-octet message) are outside the property"""
    for k, v in m.get('attr', []):
        if k not in G.STD_CODES:
            return False
        if k == 8 and len(v) > 63:
            return False
        if k == 10 and len(v) > 63:
            return False
        if k == 32 and len(v) > 21:
            return False
        if k == 2:
            for t, asns in v:
                if len(asns) > 255 or not (1 <= t <= 4):
                    return False
    return True



def rest_values(res, tier):
    """C06 "the same path through BGP.send_update": numeric attribute values asked for over REST (send/update and
    json_to_bin, real Flask views in front of a real Established session, iBGP and eBGP) are what is written to the peer -
    the value given, boundary values included, not a default the view would fill in for an ABSENT attribute."""
    import impl_xc as X
    vals = [0, 1, 100, 2 ** 16, 2 ** 31, 2 ** 32 - 1]
    # "in 2- or 4-octet-AS mode": the AS_PATH of an UPDATE asked for over REST is written in the width the two OPENs of the
    # PRESENT session agreed on (capability 65 in ours - read off the wire - and in the peer's), also after an earlier
    # session with a peer of the other kind
    from oracles import parse_open_wire
    for kind, history in (('as4', ()), ('as2', ()), ('as4', ('as2',)), ('as2', ('as4',))):
        rest = X.Rest(kind, history=history)
        if rest.state != 'ESTABLISHED':
            res.disagree('session setup for the REST AS-width oracle', [kind, list(history)], rest.state, 'ESTABLISHED')
            continue
        ours = [w for w in rest.sim.world.connectors[-1].written if w[18] == 1]
        mine = bool(ours) and any(cc == 65 for cc, _ in parse_open_wire(ours[-1])['caps'])
        wide = mine and kind == 'as4'
        want = '4002' + ('0a0202' + '0000fde9' + '0000fde8' if wide else '060202' + 'fde9' + 'fde8')
        for endpoint in ('send/update', 'json_to_bin'):
            out = rest.post_attr(endpoint, 2, [[2, [65001, 65000]]])
            res.stats.case(('rest-aswidth', kind, tuple(history), endpoint), sample=None)
            res.stats.hit('rest_as_width')
            if out.get('hex') != want:
                res.fail('C06', 'AS_PATH asked for over REST %s is not written with %d-octet AS numbers (our OPEN carries capability 65: %s, '
                                'the peer\'s: %s; earlier sessions: %r): %r' % (endpoint, 4 if wide else 2, mine, kind == 'as4', list(history), out),
                         {'suite': 'update', 'rest_value': {'peer': kind, 'earlier_peers': list(history), 'endpoint': endpoint, 'code': 2,
                                                            'value': [[2, [65001, 65000]]]}, 'sent': out, 'expected': want}, key='rest-as-width')
    for remote_as, what in ((65001, 'ibgp'), (65002, 'ebgp')):
        rest = X.Rest('as4', remote_as=remote_as)
        if rest.state != 'ESTABLISHED':
            res.disagree('session setup for the REST value oracle', what, rest.state, 'ESTABLISHED')
            continue
        for endpoint in ('send/update', 'json_to_bin'):
            for code, flags in ((4, 0x80), (5, 0x40)):
                for vi, v in enumerate(vals):
                    # (json_to_bin also in its format=human layout, with message lengths of every residue modulo 8)
                    out = rest.post_attr(endpoint, code, v, human=(endpoint == 'json_to_bin' and vi % 2 == 1),
                                         nlri=['10.%d.0.0/16' % i for i in range(1 + (vi + code) % 8)])
                    want = '%02x%02x04%08x' % (flags, code, v)
                    res.stats.case(('rest-value', what, endpoint, code, v), sample=None)
                    res.stats.hit('rest_value_' + what)
                    if out.get('hex') != want:
                        res.fail('C06', 'attribute %d asked for with value %d over REST %s (%s session) is not what is sent: %r'
                                 % (code, v, endpoint, what, out),
                                 {'suite': 'update', 'rest_value': {'session': what, 'endpoint': endpoint, 'code': code, 'value': v},
                                  'sent': out, 'expected': want}, key='rest-value')
            # extended communities in the decoder's text form (C06: "communities in the decoder's text form"): every
            # two-octet type the decoder renders as text, with boundary values; what is sent must decode to the text given
            import struct as _st
            for typ in (0x0002, 0x0102, 0x0202, 0x0003, 0x0103, 0x0203, 0x030b, 0x030c, 0x0806, 0x8008, 0x4004):
                for val in (bytes(6), bytes([0, 1, 0, 0, 0, 1]), bytes([0xfa, 0x56, 0xea, 0x00, 0, 0]), bytes([255] * 6),
                            bytes([0, 1, 0, 0, 0xff, 0xff])):
                    raw = _st.pack('!H', typ) + val
                    d = X.ext_parse(raw)
                    if 'ok' not in d or len(d['ok']) != 1 or not isinstance(d['ok'][0], str):
                        continue
                    text = d['ok'][0]
                    out = rest.post_attr(endpoint, 16, [text])
                    res.stats.case(('rest-extcomm', what, endpoint, raw.hex()), sample=None)
                    res.stats.hit('rest_extcomm_' + what)
                    if 'hex' not in out:
                        continue            # a refusal is C17's matter (the text is not accepted back), not a wrong UPDATE
                    again = X.ext_parse(bytes.fromhex(out['hex'])[3:])
                    if again != {'ok': [text]}:
                        res.fail('C06', 'extended community %r asked for over REST %s (%s session) is sent as octets that decode to %r'
                                 % (text, endpoint, what, again),
                                 {'suite': 'update', 'rest_value': {'session': what, 'endpoint': endpoint, 'code': 16, 'value': [text]},
                                  'sent': out}, key='rest-value')
            for v in (0, 1, 2):
                out = rest.post_attr(endpoint, 1, v)
                res.stats.case(('rest-value', what, endpoint, 1, v), sample=None)
                if out.get('hex') != '400101%02x' % v:
                    res.fail('C06', 'ORIGIN %d asked for over REST %s (%s session) is not what is sent: %r' % (v, endpoint, what, out),
                             {'suite': 'update', 'rest_value': {'session': what, 'endpoint': endpoint, 'code': 1, 'value': v},
                              'sent': out}, key='rest-value')

def run(seed, tier, driver):
    res = SuiteResult('update')
    r = rng_for(seed, 'update', tier)
    lits = astscan.harvest_byte_literals()
    corpus = []
    for b in lits:
        if b[:16] == b'\xff' * 16 and len(b) > 19 and b[18] == 2:
            corpus.append(b[19:])
        elif len(b) >= 4:
            corpus.append(b)
            if len(b) < 256:
                corpus.append(_body(attrs=b))
    res.stats.hit('corpus_literals', len(corpus))

    # ---- construct correspondence + C06 oracle
    ccases = construct_inputs(r, tier)
    reqs = [{'op': 'upd.construct', 'asn4': a, 'addpath': ap, 'msg': m} for (m, a, ap, _) in ccases]
    mres = driver.batch(reqs)
    roundtrip = []
    for (m, asn4, addpath, valid), mo in zip(ccases, mres):
        io = I.upd_construct(m, asn4, addpath)
        key = ('c', jdump(m), asn4, addpath)
        if 'error' in mo or has_unmodelled(mo):
            res.stats.skipped += 1
            res.stats.hit('construct_skipped')
            continue
        res.stats.case(key, nontrivial=bool(m), sample={'construct': m, 'asn4': asn4, 'impl': io})
        res.stats.hit('construct_' + ('ok' if 'hex' in io else 'raise'))
        if io != mo:
            res.disagree('Update.construct', {'msg': m, 'asn4': asn4, 'addpath': addpath}, io, mo)
        if valid and is_valid_c06(m, asn4):
            if 'hex' not in io:
                if len(jdump(m)) < 20000 and not _too_big(m, asn4):
                    res.fail('C06', 'construct raises on an in-range message',
                             {'msg': m, 'asn4': asn4, 'addpath': addpath, 'impl': io})
            else:
                roundtrip.append((m, asn4, addpath, bytes.fromhex(io['hex'])))
    for (m, asn4, addpath, wire) in roundtrip:
        body = wire[19:]
        if wire[:16] != b'\xff' * 16 or struct.unpack('!H', wire[16:18])[0] != len(wire) or wire[18] != 2:
            res.fail('C06', 'constructed UPDATE has a wrong header', {'msg': m, 'hex': wire.hex()})
            continue
        got = I.upd_parse(body, asn4, addpath)
        exp = expected_decode(m)
        res.stats.hit('roundtrip')
        if got != exp:
            res.fail('C06', 'decode(construct(m)) != m',
                     {'msg': m, 'asn4': asn4, 'addpath': addpath, 'hex': wire.hex(), 'decoded': got, 'expected': exp})

    # ---- EXTENDED COMMUNITIES inside an UPDATE (C06 names them; the per-kind encodings are C17's subject): a list of
    # communities of different kinds decodes element by element - what a community decodes to does not depend on its
    # neighbours.  Implementation only (attribute 16 is outside the Lean UPDATE model).
    XC = ['0002fde900000064', '0003fde900000065', '01020a0000010064', '01030a0000010065', '0202fa56ea00ffff', '0203fa56ea000001',
          '030b000000000064', '030c000000000008', '8008fde900000064', '80060000447a0000', '800700000000000' + '3', '8009000000000028',
          '0600000001000007', '0601010000000190', '0602001122334455', '0603aabbccddeeff', '4004fde9447a0000']
    XC = [bytes.fromhex(x) for x in XC]

    def upd_with_xc(v):
        attrs = bytes.fromhex('40010100' '400200' '4003040a000001') + bytes([0xc0, 16, len(v)]) + v
        return struct.pack('!H', 0) + struct.pack('!H', len(attrs)) + attrs + b'\x18\x0a\x00\x00'

    def xc_of(body):
        from yabgp.message.update import Update
        from lib.base import with_budget
        st, v = with_budget(5.0, Update().parse, None, body, True, {})
        if st != 'ok' or v.get('sub_error'):
            return ('bad', st, None if st != 'ok' else v.get('sub_error'))
        return v['attr'].get(16)
    singles = [xc_of(upd_with_xc(x)) for x in XC]
    lists = [[i, j] for i in range(len(XC)) for j in range(len(XC)) if i != j]
    lists += [r.sample(range(len(XC)), r.choice([3, 4, 6])) for _ in range(40 if tier == 'quick' else 2000)]
    if tier == 'quick':
        lists = r.sample(lists, 160)
    for idx in lists:
        got = xc_of(upd_with_xc(b''.join(XC[i] for i in idx)))
        want = []
        ok = True
        for i in idx:
            if not isinstance(singles[i], list):
                ok = False
                break
            want += singles[i]
        res.stats.case(('xc-list', tuple(idx)), sample=None)
        res.stats.hit('extcommunity_list_in_update')
        if ok and got != want:
            res.fail('C06', 'EXTENDED_COMMUNITIES in an UPDATE: the list does not decode to the values of its elements',
                     {'communities': [XC[i].hex() for i in idx], 'decoded': repr(got), 'elementwise': repr(want)}, key='extcommunity-list')

    # ---- parse correspondence
    pcases = parse_inputs(r, tier, corpus)
    reqs = [{'op': 'upd.parse', 'asn4': a, 'addpath': ap, 'hex': b.hex()} for (b, a, ap) in pcases]
    mres = driver.batch(reqs)
    for (b, asn4, addpath), mo in zip(pcases, mres):
        io = I.upd_parse(b, asn4, addpath)
        if has_unmodelled(mo) or has_unmodelled(io) or 'error' in mo:
            res.stats.skipped += 1
            res.stats.hit('parse_skipped')
            continue
        res.stats.case(('p', b.hex(), asn4, addpath), nontrivial=len(b) > 4,
                       sample={'parse': b.hex(), 'asn4': asn4, 'impl': io})
        if 'raise' in io:
            res.stats.hit('parse_raise')
        elif 'hang' in io:
            res.stats.hit('parse_hang')
        else:
            res.stats.hit('parse_sub_error_%s' % io['sub_error'])
        if io != mo:
            res.disagree('Update.parse', {'hex': b.hex(), 'asn4': asn4, 'addpath': addpath}, io, mo)
    rest_values(res, tier)
    return res


def _too_big(m, asn4):
    w = 4 if asn4 else 2
    n = 0
    for k, v in m.get('attr', []):
        if k == 2:
            n += sum(2 + w * len(a) for _, a in v)
    return n > 65535
