"""Correspondence suite `rest` (lean/Yabgp/Model/Rest.lean vs the real yabgp.api.app behind the Flask test client with
a real BGPPeering over the stand-in reactor behind it, see impl_rest.py) and the C16 property oracle.

Tie: the same history (session events to reach a state, then HTTP requests) is applied to the implementation and to the
Lean model; after EVERY request the HTTP status, the JSON body class and the session observation (state, timers,
statistics, connections, tracked connection, everything written / connected / closed by the request) are compared.

Oracle (the three statements of C16 evaluated on the implementation alone, never through the model):
  auth     - a request to a rule under /v1/peer/ whose Authorization header does not carry the configured user and
             password is answered 401 (405 when the rule does not accept the method, Flask's automatic 200 to OPTIONS) and
             changes nothing: state, timers, statistics, version counters, Adj-RIB-Out, capability dictionary, transports;
  gate     - a send endpoint (send/update, send/route-refresh, send/bin_update) asked while the session is not
             Established does not answer {"status": true} and changes nothing; no endpoint writes to a transport then;
  faithful - a send endpoint that answers {"status": true} made exactly one transport write, on the tracked and
             connected connection, of exactly the message asked for (send/update: Update.construct of the JSON message
             plus LOCAL_PREF 100 iff the session is iBGP and attribute 5 is absent; route-refresh: the 23-octet message
             with the type the peer advertised; bin_update: the octets given), and nothing else came out.

Cases: every rule of the live url_map x every method x eight to sixteen Authorization variants x every canonical
session state (Idle, Connect, OpenSent, OpenConfirm, Established, stopped, Idle after a session, re-established, peers
with and without route-refresh / 4-octet-AS capabilities) x eBGP / iBGP; per view the body classes (no JSON, malformed
JSON, null / number / string / list, objects with and without the fields the view reads); random IPv4-unicast messages
of gen/values.py for the successful sends; seeded random walks that interleave session events and requests."""
import atexit
import json
import os
import struct
import subprocess
import threading

from lib.base import SuiteResult, rng_for, jdump, LEAN_DIR
import impl_rest as R
import impl_session as S
from gen import session_gen as SG
from gen import values as V

SEARCH = True
METHODS = ['GET', 'HEAD', 'POST', 'PUT', 'DELETE', 'PATCH', 'OPTIONS']
MARK = 'ff' * 16


# ---------------------------------------------------------------------------------------------- Lean side
class OwnDriver(object):
    """`lake env lean --run Yabgp/Driver/RestMain.lean` behind the call/batch interface of lib.base.Driver
    (used until the rest.* ops are wired into the shared native driver)"""

    def __init__(self):
        b = subprocess.run(['lake', 'build', 'Yabgp.Driver.RestOps'], cwd=LEAN_DIR, stdout=subprocess.PIPE,
                           stderr=subprocess.STDOUT, text=True)
        if b.returncode != 0:
            raise RuntimeError('lake build Yabgp.Driver.RestOps failed:\n' + b.stdout[-2000:])
        self.p = subprocess.Popen(['lake', 'env', 'lean', '--run', 'Yabgp/Driver/RestMain.lean'], cwd=LEAN_DIR,
                                  stdin=subprocess.PIPE, stdout=subprocess.PIPE, text=True, bufsize=1 << 16)

    def call(self, req):
        self.p.stdin.write(json.dumps(req, separators=(',', ':')) + '\n')
        self.p.stdin.flush()
        line = self.p.stdout.readline()
        if not line:
            raise RuntimeError('rest driver died on request %r' % (req,))
        return json.loads(line)

    def batch(self, reqs):
        reqs = list(reqs)

        def writer():
            w = self.p.stdin
            for r in reqs:
                w.write(json.dumps(r, separators=(',', ':')) + '\n')
            w.flush()
        t = threading.Thread(target=writer)
        t.start()
        out = []
        for _ in reqs:
            line = self.p.stdout.readline()
            if not line:
                raise RuntimeError('rest driver died in batch')
            out.append(json.loads(line))
        t.join()
        return out

    def close(self):
        try:
            self.p.stdin.close()
            self.p.wait(timeout=10)
        except Exception:  # noqa
            self.p.kill()


_own = None


def _close_own():
    global _own
    if _own is not None:
        _own.close()
        _own = None


atexit.register(_close_own)


def model_driver(driver):
    """the shared native driver when it knows the rest ops, the stand-alone one otherwise"""
    global _own
    if driver is not None:
        try:
            r = driver.call({'op': 'rest.routes'})
            if 'routes' in r:
                return driver
        except Exception:  # noqa
            pass
    if _own is None:
        _own = OwnDriver()
    return _own


def model_cfg(conf):
    full = dict(S.DEFAULT_CFG)
    full.update(conf)
    import netaddr
    return {'local_as': full['local_as'], 'remote_as': full['remote_as'], 'hold_time': full['hold_time'],
            'connect_retry_time': full['connect_retry_time'], 'idle_hold_time': full['idle_hold_time'],
            'local_id': int(netaddr.IPAddress(full['local_host'])), 'caps': full['caps']}


# ---------------------------------------------------------------------------------------------- configurations
EBGP = {}
IBGP = {'local_as': 65010, 'remote_as': 65010}
EBGP_AS4 = {'local_as': 4200000001, 'remote_as': 4200000002}
IBGP_NO_AS4 = {'local_as': 64512, 'remote_as': 64512,
               'caps': {'four_bytes_as': False, 'route_refresh': True, 'cisco_route_refresh': False,
                        'enhanced_route_refresh': False, 'graceful_restart': False, 'cisco_multi_session': False,
                        'add_path': None, 'afi_safi': [[1, 1]]}}
IBGP_RIB = {'local_as': 65010, 'remote_as': 65010, 'rib': True}
CONFIGS = [EBGP, IBGP, EBGP_AS4, IBGP_NO_AS4, IBGP_RIB]
CREDS = [('admin', 'admin'), ('operator', 's3cr:et pass'), ('admin', 'pässwörd')]


def remote_as(conf):
    full = dict(S.DEFAULT_CFG)
    full.update(conf)
    return full['remote_as']


def open_frames(conf):
    ras = remote_as(conf)
    return {
        'std': SG.frame(1, SG.open_body(ras, 90, caps=SG.std_caps(ras))).hex(),
        'nocaps': SG.frame(1, SG.open_body(ras, 180)).hex(),
        'as2_rr': SG.frame(1, SG.open_body(ras, 90, caps=SG.std_caps(ras, as4=False))).hex() if ras <= 65535 else None,
        'mp_only': SG.frame(1, SG.open_body(ras, 90, caps=SG.cap(1, b'\x00\x01\x00\x01') + SG.cap(1, b'\x00\x02\x00\x01')
                                            + (SG.cap(65, struct.pack('!I', ras)) if ras > 65535 else b''))).hex(),
        'cisco_only': SG.frame(1, SG.open_body(ras, 90, caps=SG.cap(1, b'\x00\x01\x00\x01') + SG.cap(128)
                                               + SG.cap(65, struct.pack('!I', ras)))).hex(),
        'rr_no_mp': SG.frame(1, SG.open_body(ras, 90, caps=SG.cap(2) + SG.cap(65, struct.pack('!I', ras)))).hex(),
        # RFC 2918 route refresh only (no Cisco type 128): what the agent writes follows what THIS peer advertised
        'rr_only': SG.frame(1, SG.open_body(ras, 90, caps=SG.cap(1, b'\x00\x01\x00\x01') + SG.cap(2)
                                            + SG.cap(65, struct.pack('!I', ras)))).hex(),
    }


KA = SG.KEEPALIVE.hex()
NOTIF = SG.frame(3, b'\x06\x02').hex()


def state_prefixes(conf, tier):
    """name -> session events that reach the canonical state"""
    of = open_frames(conf)
    full = dict(S.DEFAULT_CFG)
    full.update(conf)
    up = [{'k': 'boot'}, {'k': 'connok', 'c': 0}]
    est = up + [{'k': 'chunk', 'c': 0, 'hex': of['std']}, {'k': 'chunk', 'c': 0, 'hex': KA}]
    idle_ticks = 3 * full['idle_hold_time']
    out = {
        'idle': [],
        'connect': [{'k': 'boot'}],
        'opensent': list(up),
        'openconfirm': up + [{'k': 'chunk', 'c': 0, 'hex': of['std']}],
        'established': list(est),
        # some time after the timers of the session were armed (a request that re-arms one of them shows)
        'established_later': est + [{'k': 'advance', 'dt': 7}],
        'stopped': est + [{'k': 'stop'}],
        'stopped_closed': est + [{'k': 'stop'}, {'k': 'lost', 'c': 0}],
        'idle_after_session': est + [{'k': 'chunk', 'c': 0, 'hex': NOTIF}],
        'reestablished': est + [{'k': 'chunk', 'c': 0, 'hex': NOTIF}, {'k': 'lost', 'c': 0},
                                {'k': 'advance', 'dt': idle_ticks}, {'k': 'fire', 't': 'idlehold'},
                                {'k': 'connok', 'c': 1}, {'k': 'chunk', 'c': 1, 'hex': of['std']},
                                {'k': 'chunk', 'c': 1, 'hex': KA}],
    }
    for name in ('nocaps', 'as2_rr', 'mp_only', 'cisco_only', 'rr_no_mp', 'rr_only'):
        if of[name] is not None:
            out['established_' + name] = up + [{'k': 'chunk', 'c': 0, 'hex': of[name]}, {'k': 'chunk', 'c': 0, 'hex': KA}]
    # a second session whose peer advertises OTHER capabilities than the peer of the first one did (the router was replaced
    # or reconfigured): what a send writes follows the present peer's capabilities only
    def again(first, second):
        return up + [{'k': 'chunk', 'c': 0, 'hex': of[first]}, {'k': 'chunk', 'c': 0, 'hex': KA},
                     {'k': 'chunk', 'c': 0, 'hex': NOTIF}, {'k': 'lost', 'c': 0},
                     {'k': 'advance', 'dt': idle_ticks}, {'k': 'fire', 't': 'idlehold'},
                     {'k': 'connok', 'c': 1}, {'k': 'chunk', 'c': 1, 'hex': of[second]}, {'k': 'chunk', 'c': 1, 'hex': KA}]
    if of['as2_rr'] is not None:
        out['reestablished_after_cisco_only_as2_rr'] = again('cisco_only', 'as2_rr')
        out['reestablished_after_as2_rr'] = again('as2_rr', 'std')
    return out


CORE_STATES = ['idle', 'connect', 'opensent', 'openconfirm', 'established', 'stopped']


def auth_variants(user, pw):
    out = [
        ('none', {'k': 'none'}),
        ('wrong_user', {'k': 'basic', 'user': user + 'x', 'password': pw}),
        ('wrong_password', {'k': 'basic', 'user': user, 'password': pw + 'x'}),
        ('right', {'k': 'basic', 'user': user, 'password': pw}),
        ('empty_password', {'k': 'basic', 'user': user, 'password': ''}),
        ('empty_user', {'k': 'basic', 'user': '', 'password': pw}),
        ('nonascii_password', {'k': 'basic', 'user': user, 'password': 'pä'}),
        ('nonascii_user', {'k': 'basic', 'user': 'admïn', 'password': pw}),
        # the configured secret with characters added that an ASCII-only / normalising comparison would drop
        ('password_plus_nonascii', {'k': 'basic', 'user': user, 'password': pw + 'é'}),
        ('nonascii_plus_password', {'k': 'basic', 'user': user, 'password': 'ü' + pw}),
        ('password_with_zero_width', {'k': 'basic', 'user': user, 'password': pw[:2] + '\u200b' + pw[2:]}),
        ('user_plus_nonascii', {'k': 'basic', 'user': user + 'é', 'password': pw}),
        ('password_plus_space', {'k': 'basic', 'user': user, 'password': pw + ' '}),
        ('password_plus_nul', {'k': 'basic', 'user': user, 'password': pw + '\x00'}),
        # the right characters with the boundary between user name and password moved (a comparison of the joined string,
        # or of one part only after a split at another place, would accept them)
        ('boundary_moved_left', {'k': 'basic', 'user': user[:-1], 'password': user[-1:] + pw}),
        ('boundary_moved_right', {'k': 'basic', 'user': user + pw[:1], 'password': pw[1:]}),
        ('all_in_user', {'k': 'basic', 'user': user + pw, 'password': ''}),
        ('all_in_password', {'k': 'basic', 'user': '', 'password': user + pw}),
    ]
    more = [
        ('upper_user', {'k': 'basic', 'user': user.upper(), 'password': pw}),
        ('prefix_password', {'k': 'basic', 'user': user, 'password': pw[:-1]}),
        ('swapped', {'k': 'basic', 'user': pw, 'password': user}),
        ('other_scheme_right', {'k': 'basic', 'user': user, 'password': pw, 'scheme': 'Bearer'}),
        ('raw_scheme_only', {'k': 'raw', 'value': 'Basic'}),
        ('raw_not_base64', {'k': 'raw', 'value': 'Basic !!!'}),
        ('raw_no_colon', {'k': 'raw', 'value': 'Basic YWRtaW5hZG1pbg=='}),
        ('raw_digest', {'k': 'raw', 'value': 'Digest username="%s"' % user}),
    ]
    return out, more


UPD = {'attr': {'1': 0, '2': [[2, [65001]]], '3': '10.0.0.1'}, 'nlri': ['10.1.0.0/16']}
GOOD_BODY = {
    '/v1/peer/<peer_ip>/send/update': UPD,
    '/v1/peer/<peer_ip>/json_to_bin': UPD,
    '/v1/peer/<peer_ip>/send/route-refresh': {'afi': 1, 'safi': 1},
    '/v1/peer/<peer_ip>/send/bin_update': {'binary_data': MARK + '001304'},
    '/v1/peer/<peer_ip>/adj-rib-in': {'data': ['10.1.0.0/16']},
    '/v1/peer/<peer_ip>/adj-rib-out': {'data': ['10.1.0.0/16']},
}


def json_body(v):
    return {'k': 'json', 'v': v}


def update_json(m):
    """a gen/values.py message as the JSON body of send/update (attribute dictionary keyed by str(code), in order)"""
    b = {}
    if 'attr' in m:
        b['attr'] = {str(c): v for c, v in m['attr']}
    for k in ('nlri', 'withdraw'):
        if k in m:
            b[k] = m[k]
    return b


def body_variants(rule, r, asn4, n_rand):
    """request bodies for a POST view: body classes + view specific objects"""
    out = [{'k': 'nojson'}, {'k': 'badjson'}, json_body(None), json_body(7), json_body('text'), json_body([]), json_body({})]
    if rule in ('/v1/peer/<peer_ip>/send/update', '/v1/peer/<peer_ip>/json_to_bin'):
        fixed = [
            UPD,
            {'withdraw': ['10.1.0.0/16']},
            {'attr': {}, 'withdraw': ['10.1.0.0/16', '0.0.0.0/0']},
            {'nlri': ['10.1.0.0/16']},                                        # nlri without attributes
            {'attr': {'1': 0, '2': [], '3': '10.0.0.1'}},                     # attributes without nlri
            {'attr': None, 'nlri': None, 'withdraw': None},
            {'attr': {'1': 0, '2': [], '3': '10.0.0.1', '5': 0}, 'nlri': ['10.2.0.0/15']},
            {'attr': {'5': 4294967295, '1': 2, '2': [[2, [1, 2, 3]]], '3': '1.2.3.4'}, 'nlri': ['0.0.0.0/0'],
             'withdraw': ['255.255.255.255/32']},
            {'attr': {'1': 3, '2': [], '3': '10.0.0.1'}, 'nlri': ['10.1.0.0/16']},          # ORIGIN 3: construct raises
            {'attr': {'1': 0, '2': [[2, [70000]]], '3': '10.0.0.1'}, 'nlri': ['10.1.0.0/16']},   # needs 4-octet AS
            {'attr': {'1': 0, '2': [], '3': '10.0.0.1', '4': 4294967296}, 'nlri': ['10.1.0.0/16']},
            {'attr': {'8': ['NO_EXPORT', '65001:7'], '1': 0, '3': '10.0.0.1', '2': [[1, [7, 8]], [2, [9]]]},
             'nlri': ['10.1.0.0/16', '10.1.0.0/16']},
        ]
        out += [json_body(f) for f in fixed]
        # an UPDATE that comes out longer than 4096 octets (the agent builds and sends what it is asked to)
        out.append(json_body({'attr': {'1': 0, '2': [], '3': '10.0.0.1'},
                              'nlri': ['10.%d.%d.0/24' % (i // 250, i % 250) for i in range(1100)]}))
        # outside the modelled message space (extended-community text of C17, MP_REACH of C07, unknown attribute):
        # issued for the oracle only
        out += [json_body(f) for f in (
            {'attr': {'1': 0, '2': [], '3': '10.0.0.1', '16': ['route-target:65001:7']}, 'nlri': ['10.1.0.0/16']},
            {'attr': {'1': 0, '2': [], '3': '10.0.0.1', '16': ['no-such-community:1']}, 'nlri': ['10.1.0.0/16']},
            {'attr': {'1': 0, '2': [], '3': '10.0.0.1', '99': 'x'}, 'nlri': ['10.1.0.0/16']},
            {'attr': {'1': 0, '2': [], '5': 100, '14': {'afi_safi': [2, 1], 'nexthop': '2001:db8::1',
                                                        'nlri': ['2001:db8:1::/48']}}},
            {'attr': {'x': 1}, 'nlri': ['10.1.0.0/16']},
            {'attr': [1, 2], 'nlri': ['10.1.0.0/16']},
        )]
        for _ in range(n_rand):
            out.append(json_body(update_json(V.rnd_update(r, asn4))))
    elif rule == '/v1/peer/<peer_ip>/send/route-refresh':
        for afi in (None, 0, 1, 2, 25, 65535, 65536):
            for safi in (None, 1, 128, 255, 256):
                for res in (None, 0, 255, 256):
                    if r.random() < 0.35 or (afi in (None, 1) and safi in (None, 1)):
                        b = {}
                        if afi is not None:
                            b['afi'] = afi
                        if safi is not None:
                            b['safi'] = safi
                        if res is not None:
                            b['res'] = res
                        out.append(json_body(b))
    elif rule == '/v1/peer/<peer_ip>/send/bin_update':
        ka = MARK + '001304'
        upd = MARK + '001702' + '00000000'
        # two UPDATEs (unknown optional transitive attribute as padding) that together exceed the largest BGP message
        pad = 'd0fa' + '%04x' % 2060 + '5a' * 2060
        big = MARK + '%04x' % (19 + 4 + 2064) + '02' + '0000' + '%04x' % 2064 + pad
        for v in (ka, upd, ka.upper(), ka + upd, big, big + big, 'ff', '00', ka[:-1], 'zz', 'f', '', ' ', 'ff ff', 'ää', 12, ['ff', 'ff'],
                  True, {'a': 1}, ''.join('%02x' % r.getrandbits(8) for _ in range(r.choice([1, 19, 64, 300])))):
            out.append(json_body({'binary_data': v}))
        out.append(json_body({'other': 1}))
    else:
        out += [json_body({'data': ['10.1.0.0/16']}), json_body({'data': []}), json_body({'data': None}),
                json_body({'data': ['10.1.0.0/16', '192.168.3.0/24', '0.0.0.0/0']})]
    return out


# ---------------------------------------------------------------------------------------------- expected bytes (oracle)
def session_caps(pair, before):
    """(capability codes of the OPEN we wrote, of the OPEN the peer sent) on the connection that was tracked before the
    request; None when either is missing"""
    from oracles import parse_open_wire
    cid = before.get('proto')
    if cid is None:
        return None
    conns = pair.rs.sim.world.connectors
    if cid >= len(conns):
        return None
    ours = [w for w in conns[cid].written if w[18] == 1]
    theirs = []
    steps = list(pair.steps)
    for k in range(len(steps) - 1, -1, -1):
        if isinstance(steps[k], dict) and steps[k].get('reset'):
            steps = steps[k + 1:]
            break
    for st in steps:
        ev = st.get('ev') if isinstance(st, dict) else None
        if ev and ev.get('k') == 'chunk' and ev.get('c') == cid:
            try:
                b = bytes.fromhex(ev['hex'])
            except ValueError:
                continue
            if len(b) > 19 and b[:16] == b'\xff' * 16 and b[18] == 1 and not theirs:
                theirs.append(b)
    if not ours or not theirs:
        return None
    return (set(c for c, _ in parse_open_wire(ours[-1])['caps']), set(c for c, _ in parse_open_wire(theirs[0])['caps']))


def expected_send_bytes(pair, req, before):
    """hex of the one message a successful send must have written, or None when this oracle cannot say"""
    rule = req['rule']
    b = req.get('body') or {}
    if b.get('k') != 'json' or not isinstance(b.get('v'), dict):
        return None
    v = b['v']
    if rule == '/v1/peer/<peer_ip>/send/update':
        attr = v.get('attr') or {}
        try:
            attr = {int(k): x for k, x in attr.items()}
        except Exception:  # noqa
            return None
        if 14 in attr or 15 in attr or 16 in attr:
            return None
        if attr and 5 not in attr and pair.full['local_as'] == pair.full['remote_as']:
            attr[5] = 100
        msg = {'attr': attr, 'nlri': v.get('nlri') or [], 'withdraw': v.get('withdraw') or []}
        # the AS width of THIS session, read off the two OPENs that crossed the tracked connection (not off the agent's own
        # idea of it): 4 octets iff both carried capability 65
        both = session_caps(pair, before)
        if both is None:
            return None
        widths = [65 in both[0] and 65 in both[1]]
        from yabgp.message.update import Update
        outs = []
        for w in widths:
            try:
                outs.append(Update.construct(msg, w, False).hex())
            except Exception:  # noqa
                pass
        return outs or None
    if rule == '/v1/peer/<peer_ip>/send/route-refresh':
        try:
            both = session_caps(pair, before)
            if both is None:
                return None
            # the type the present peer's OPEN asked for (Cisco's private type only when it advertised capability 128)
            ty = 128 if 128 in both[1] else 5
            return [MARK + '0017' + '%02x' % ty + struct.pack('!HBB', v['afi'], v.get('res', 0), v['safi']).hex()]
        except Exception:  # noqa
            return None
    if rule == '/v1/peer/<peer_ip>/send/bin_update':
        bd = v.get('binary_data')
        if (req.get('query') or {}).get('format') == 'human':
            bd = ''.join(bd).replace(' ', '') if isinstance(bd, (list, str)) else None
        if not isinstance(bd, str):
            return None
        try:
            return [bytes.fromhex(bd).hex()] if ' ' not in bd else None
        except ValueError:
            return None
    return None


# ---------------------------------------------------------------------------------------------- lock-step pair
class Pair(object):
    """implementation and model side by side; the model side is answered in one batch at the end of a case"""

    def __init__(self, conf, creds, res, rules):
        self.conf = conf
        self.creds = creds
        self.res = res
        self.rules = rules
        self.full = dict(S.DEFAULT_CFG)
        self.full.update(conf)
        self.steps = []        # replayable history
        self.mops = []         # model ops
        self.pending = []      # (index into mops, request, implementation's answer) to compare
        self.rs = None
        self.reset()

    def reset(self):
        self.rs = R.RestSim(self.conf, user=self.creds[0], password=self.creds[1])
        self.steps.append({'reset': True})
        self.mops.append({'op': 'rest.reset', 'cfg': model_cfg(self.conf), 'user': self.creds[0], 'password': self.creds[1]})

    def event(self, ev):
        ev = {k: v for k, v in ev.items() if k != 'label'}
        if not self.rs.enabled(ev):
            return None
        io = self.rs.event(ev)
        self.steps.append({'ev': ev})
        self.mops.append({'op': 'rest.ev', 'ev': ev})
        self.pending.append((len(self.mops) - 1, None, io))
        return io

    def request(self, req):
        out = self.rs.request(req)
        self.steps.append({'req': req})
        oracle(self.res, self, req, out)
        oracle_counters(self.res, self, req, out)
        oracle_timers(self.res, self, req, out)
        mreq = R.model_request(req)
        if mreq is None:
            self.res.stats.skipped += 1
            self.res.stats.hit('outside_model_space')
            # the model must be kept in step: requests outside its space are only issued when they change nothing
            if out['obs']['outs'] or changed(out):
                self.dead = True
        else:
            self.mops.append({'op': 'rest.req', 'req': mreq})
            self.pending.append((len(self.mops) - 1, req, out))
        return out

    dead = False

    def case(self):
        return {'cfg': self.conf, 'creds': list(self.creds), 'steps': list(self.steps)}

    def finish(self, mdrv):
        """run the model on the recorded history and compare"""
        if not self.mops:
            return
        answers = mdrv.batch(self.mops)
        for idx, req, out in self.pending:
            mo = answers[idx]
            if 'error' in mo:
                self.res.disagree('model driver error', self.case(), None, mo)
                break
            if req is None:
                if any(o == ['unmodelled'] for o in mo.get('outs', [])):
                    # an UPDATE outside the decoders of the Lean UPDATE model (as in suites/session.py): the comparison of
                    # this history ends here
                    self.res.stats.skipped += 1
                    self.res.stats.hit('model_says_unmodelled')
                    break
                if out != mo:
                    self.res.disagree('session event before a request', self.case(), out, mo)
                    break
                continue
            if mo['resp']['body'] == ['unmodelled']:
                self.res.stats.skipped += 1
                self.res.stats.hit('model_says_unmodelled')
                if out['obs']['outs'] or changed(out):
                    break
                continue
            impl = {'resp': out['resp'], 'obs': out['obs']}
            model = {'resp': {'status': mo['resp']['status'], 'body': mo['resp']['body']}, 'obs': mo['obs']}
            if mo['resp'].get('why'):
                self.res.stats.hit('why_' + mo['resp']['why'])
            if impl != model:
                self.res.disagree('rest request', dict(self.case(), request=req), impl, model)
                break


def changed(out):
    b, a = out['before'], out['after']
    return any(b[k] != a.get(k) for k in b)


# ---------------------------------------------------------------------------------------------- the C16 oracle
def oracle(res, pair, req, out):
    rule = req['rule']
    if not rule.startswith('/v1/peer/'):
        return
    methods = pair.rules[rule]
    resp, before = out['resp'], out['before']
    outs = out['obs']['outs']
    cred = R.parsed_credentials(req.get('auth', {'k': 'none'}))
    valid = cred is not None and tuple(cred) == tuple(pair.creds)
    ch = changed(out) or bool(outs)
    replay = dict(pair.case(), request=req, answer=resp, outs=outs)
    success = resp['status'] == 200 and resp['body'] == ['status', True]
    res.stats.hit('oracle_' + ('valid' if valid else 'invalid') + '_' + before['state'])
    # ---- auth
    if not valid:
        if req['method'] not in methods:
            want = 405
        elif req['method'] == 'OPTIONS':
            want = 200
        else:
            want = 401
        if resp['status'] != want or (want == 200 and resp['body'] != ['empty']):
            # hmac.compare_digest(str, str) raises TypeError when either text has a non-ASCII character
            nonascii = cred is not None and cred[0] == pair.creds[0] and (
                any(ord(c) > 127 for c in cred[1]) or any(ord(c) > 127 for c in pair.creds[1]))
            key = 'auth-500-nonascii-password' if (resp['status'] == 500 and nonascii) else 'auth-status'
            res.fail('C16', '%s %s without valid credentials is answered %s %s instead of %d' % (
                req['method'], rule, resp['status'], resp['body'][0], want), replay, key=key)
        if ch:
            res.fail('C16', '%s %s without valid credentials changed the peer (%s)' % (
                req['method'], rule, describe_change(out)), replay, key='auth-effect')
    # ---- gate
    if before['state'] != 'ESTABLISHED':
        if any(o[0] == 'write' for o in outs):
            res.fail('C16', '%s %s wrote to a transport while the session is %s' % (req['method'], rule, before['state']),
                     replay, key='gate-write')
        if rule in R.SEND_RULES:
            if success:
                res.fail('C16', '%s reports success while the session is %s' % (rule, before['state']), replay,
                         key='gate-success')
            if ch:
                res.fail('C16', '%s changed the peer while the session is %s (%s)' % (
                    rule, before['state'], describe_change(out)), replay, key='gate-effect')
    # ---- faithful
    if rule in R.SEND_RULES and success:
        writes = [o for o in outs if o[0] == 'write']
        others = [o for o in outs if o[0] != 'write']
        want = expected_send_bytes(pair, req, before)
        empty_bin = want == ['']
        if empty_bin:
            res.stats.hit('faithful_empty_octet_string')
            if outs:
                res.fail('C16', '%s of zero octets produced output' % rule, replay, key='faithful-count')
        else:
            if len(writes) != 1 or others:
                res.fail('C16', '%s reports success with %d transport writes and %d other outputs' % (
                    rule, len(writes), len(others)), replay, key='faithful-count')
            else:
                c = writes[0][1]
                if before['proto'] != c or before['conns'][c] != 'connected':
                    res.fail('C16', '%s wrote to connection %r, tracked is %r (%s)' % (
                        rule, c, before['proto'], before['conns']), replay, key='faithful-connection')
                if want is None:
                    res.stats.hit('faithful_expected_unknown')
                elif writes[0][2] not in want:
                    res.fail('C16', '%s wrote %s, the message asked for is %s' % (rule, writes[0][2], want[0]), replay,
                             key='faithful-bytes')
                else:
                    res.stats.hit('faithful_checked_' + rule.rsplit('/', 1)[1])


STAT_OF_TYPE = {1: 'Opens', 2: 'Updates', 3: 'Notifications', 4: 'Keepalives', 5: 'RouteRefresh', 128: 'RouteRefresh'}


def oracle_counters(res, pair, req, out):
    """C18 on REST requests: what a request adds to the sent counters of the tracked connection is what it wrote to it,
    by kind.  An octet string that is not exactly one BGP message (possible through send/bin_update only) is outside the
    claim and skipped."""
    b, a = out['before'], out['after']
    if not b.get('stats') or not a.get('stats') or b.get('proto') is None or b.get('proto') != a.get('proto'):
        return
    wrote = {}
    for o in out['obs']['outs']:
        if o[0] != 'write' or o[1] != b['proto']:
            continue
        raw = bytes.fromhex(o[2])
        if len(raw) < 19 or int.from_bytes(raw[16:18], 'big') != len(raw) or raw[18] not in STAT_OF_TYPE or \
                (req['rule'].endswith('bin_update') and raw[18] != 2):
            # send/bin_update is for UPDATE messages built elsewhere; other octets are outside the claim (`BinIsUpdate`)
            res.stats.hit('counters_skipped_not_one_message')
            return
        wrote[STAT_OF_TYPE[raw[18]]] = wrote.get(STAT_OF_TYPE[raw[18]], 0) + 1
    res.stats.hit('counters_checked' + ('_with_write' if wrote else ''))
    for name in ('Opens', 'Updates', 'Notifications', 'Keepalives', 'RouteRefresh'):
        d = a['stats']['send'].get(name, 0) - b['stats']['send'].get(name, 0)
        if d != wrote.get(name, 0):
            res.fail('C18', '%s %s: sent counter %s moved by %d, %d such messages were written' % (
                req['method'], req['rule'], name, d, wrote.get(name, 0)),
                dict(pair.case(), request=req, answer=out['resp'], outs=out['obs']['outs']), key='rest-sent-counter')
            return


def oracle_timers(res, pair, req, out):
    """C03 on REST requests: asking the agent to send something (or to tell its state) does not move the keepalive or the
    hold timer - "a KEEPALIVE at least every H/3 seconds" holds whatever the application sends in between."""
    b, a = out['before'], out['after']
    if req['rule'].endswith('manual-start') or req['rule'].endswith('manual-stop'):
        return
    if b.get('state') in ('OPENCONFIRM', 'ESTABLISHED') and a.get('state') == b.get('state'):
        bt, at = b.get('timers') or {}, a.get('timers') or {}
        # the hold deadline is "last arrival + H": nothing arrived; the next KEEPALIVE must not be put off (an earlier one
        # would be harmless)
        later_ka = bool(bt.get('keepalive')) and (not at.get('keepalive') or min(at['keepalive']) > min(bt['keepalive']))
        if bt.get('hold') != at.get('hold') or later_ka:
            res.fail('C03', '%s %s moved the session timers: %r -> %r' % (req['method'], req['rule'], bt, at),
                     dict(pair.case(), request=req, answer=out['resp']), key='rest-moves-timers')


def describe_change(out):
    b, a = out['before'], out['after']
    keys = [k for k in b if b[k] != a.get(k)]
    return ','.join(keys) + (' outs=%s' % jdump(out['obs']['outs'])[:120] if out['obs']['outs'] else '')


# ---------------------------------------------------------------------------------------------- case generators
def reach(pair, prefix):
    for ev in prefix:
        if pair.event(ev) is None:
            return False
    return True


def mk_req(rule, method, auth, body=None, **kw):
    q = {'rule': rule, 'method': method, 'auth': auth}
    if body is not None:
        q['body'] = body
    q.update(kw)
    return q


def run_requests(res, mdrv, conf, creds, rules, prefix, reqs, tag):
    """issue the requests one after the other from the state `prefix` reaches; whenever a request changed the peer the
    state is rebuilt, so that every request sees the canonical state"""
    pair = Pair(conf, creds, res, rules)
    okp = reach(pair, prefix)
    n = 0
    for q in reqs:
        if not okp:
            break
        out = pair.request(q)
        n += 1
        res.stats.case((tag, jdump(conf), creds[0], jdump(q)),
                       sample={'request': q, 'answer': out['resp'], 'state': out['before']['state']})
        res.stats.hit('status_%d' % out['resp']['status'])
        res.stats.hit('rule_' + q['rule'])
        if pair.dead:
            pair.finish(mdrv)
            pair = Pair(conf, creds, res, rules)
            okp = reach(pair, prefix)
        elif changed(out) or out['obs']['outs']:
            res.stats.hit('effective_requests')
            if len(pair.mops) > 400:
                pair.finish(mdrv)
                pair = Pair(conf, creds, res, rules)
            else:
                pair.reset()
            okp = reach(pair, prefix)
    pair.finish(mdrv)
    return n


def enumeration(res, mdrv, r, tier):
    """every rule x every method x credentials x every canonical state"""
    rules = {x['rule']: x['methods'] for x in R.url_rules()}
    confs = [EBGP, IBGP] if tier == 'quick' else CONFIGS
    for ci, conf in enumerate(confs):
        prefixes = state_prefixes(conf, tier)
        names = CORE_STATES if (tier == 'quick' and ci > 0) else list(prefixes)
        for ki, creds in enumerate(CREDS if (tier != 'quick' or ci == 0) else CREDS[:1]):
            base, more = auth_variants(*creds)
            for sname in names:
                reqs = []
                for rule in rules:
                    auths = base + (more if (ki == 0 and sname in ('established', 'idle')) or tier != 'quick' else [])
                    for method in METHODS:
                        for aname, a in auths:
                            body = None
                            if method in ('POST', 'PUT', 'PATCH'):
                                gb = GOOD_BODY.get(rule)
                                body = json_body(gb) if gb is not None else {'k': 'nojson'}
                            for action in (['send', 'received', 'other'] if '<action>' in rule and aname == 'right' else ['send']):
                                reqs.append(mk_req(rule, method, a, body, action=action,
                                                   peer_ip=r.choice(['10.0.0.2', '10.0.0.2', '192.0.2.77', 'nobody'])))
                n = run_requests(res, mdrv, conf, creds, rules, prefixes[sname], reqs, 'enum')
                res.stats.hit('enum_state_' + sname, n)


def bodies(res, mdrv, r, tier):
    """per POST view: every body class, with right credentials in every state and without credentials in Established"""
    rules = {x['rule']: x['methods'] for x in R.url_rules()}
    confs = [EBGP, IBGP, IBGP_NO_AS4] if tier == 'quick' else CONFIGS
    n_rand = 25 if tier == 'quick' else 250
    for conf in confs:
        prefixes = state_prefixes(conf, tier)
        creds = CREDS[0]
        right = {'k': 'basic', 'user': creds[0], 'password': creds[1]}
        for sname, prefix in prefixes.items():
            established = sname.startswith('established') or sname.startswith('reestablished')
            if tier == 'quick' and not established and sname not in ('idle', 'openconfirm', 'stopped'):
                continue
            asn4 = not (sname.endswith('as2_rr') or sname.endswith('nocaps') or sname.endswith('mp_only')) and \
                not (conf is IBGP_NO_AS4)
            reqs = []
            for rule, methods in rules.items():
                if 'POST' not in methods:
                    continue
                for b in body_variants(rule, r, asn4, n_rand if established else 3):
                    kw = {}
                    if rule.endswith('bin_update') and b.get('k') == 'json' and isinstance(b['v'], dict) and \
                            isinstance(b['v'].get('binary_data'), (str, list)) and r.random() < 0.4:
                        kw['query'] = {'format': 'human'}
                    if 'adj-rib' in rule and r.random() < 0.2:
                        kw['query'] = {'afi_safi': r.choice(['ipv4', 'flowspec'])}
                    reqs.append(mk_req(rule, 'POST', right, b, **kw))
                    if established and r.random() < 0.3:
                        reqs.append(mk_req(rule, 'POST', r.choice([{'k': 'none'},
                                                                 {'k': 'basic', 'user': creds[0], 'password': 'no'}]), b, **kw))
            n = run_requests(res, mdrv, conf, creds, rules, prefix, reqs, 'body')
            res.stats.hit('body_state_' + sname, n)


def random_walk(res, mdrv, r, length):
    """session events and requests interleaved, without rebuilding the state"""
    from suites.session import candidate_events
    rules = {x['rule']: x['methods'] for x in R.url_rules()}
    conf = r.choice(CONFIGS)
    creds = r.choice(CREDS[:2])
    pair = Pair(conf, creds, res, rules)
    pool = SG.message_pool(remote_as(conf))
    of = open_frames(conf)
    pool = [('open_std', bytes.fromhex(of['std']))] * 6 + [('keepalive', SG.KEEPALIVE)] * 8 + pool
    base, more = auth_variants(*creds)
    right = base[3][1]
    booted = False
    if r.random() < 0.6:
        # start from an Established session more often than a blind walk gets there
        for ev in state_prefixes(conf, 'quick')[r.choice(['established', 'established', 'reestablished', 'openconfirm'])]:
            pair.event(ev)
        booted = True
    rule_names = list(rules)
    rule_weights = [0.25 if x.endswith('manual-stop') else (2.0 if x in R.SEND_RULES else 1.0) for x in rule_names]
    for _ in range(length):
        if r.random() < 0.45:
            cands = candidate_events(pair.rs.sim, pool, booted=booted)
            weights = []
            for ev in cands:
                k = ev['k']
                w = 1.0
                if k == 'chunk':
                    w = 3.0 if ev.get('label') in ('open_std', 'keepalive') else 0.04
                elif k in ('connok',):
                    w = 6.0
                elif k in ('start', 'stop', 'lost', 'connfail'):
                    w = 0.4
                elif k == 'boot':
                    w = 4.0
                weights.append(w)
            ev = r.choices(cands, weights)[0]
            if ev['k'] == 'boot':
                booted = True
            io = pair.event(ev)
            if io is not None and any(o == ['unmodelled'] for o in io.get('outs', [])):
                break
        else:
            rule = r.choices(rule_names, rule_weights)[0]
            methods = rules[rule]
            method = r.choice(methods) if r.random() < 0.85 else r.choice(METHODS)
            a = right if r.random() < 0.7 else r.choice(base + more)[1]
            body = None
            if method in ('POST', 'PUT', 'PATCH'):
                if r.random() < 0.75 and rule in GOOD_BODY:
                    if rule.endswith('send/update') and r.random() < 0.7:
                        body = json_body(update_json(V.rnd_update(r, r.random() < 0.5)))
                    else:
                        body = json_body(GOOD_BODY[rule])
                else:
                    body = r.choice([{'k': 'nojson'}, {'k': 'badjson'}, json_body(None), json_body({})])
            q = mk_req(rule, method, a, body, action=r.choice(['send', 'received', 'x']))
            out = pair.request(q)
            res.stats.hit('walk_request_state_' + out['before']['state'])
            if pair.dead:
                break
    res.stats.case(('walk', jdump(pair.case())), sample=None)
    pair.finish(mdrv)


# ---------------------------------------------------------------------------------------------- entry points
def run(seed, tier, driver):
    res = SuiteResult('rest')
    r = rng_for(seed, 'rest', tier)
    mdrv = model_driver(driver)
    if tier != 'search':
        enumeration(res, mdrv, r, tier)
        bodies(res, mdrv, r, tier)
    for _ in range({'quick': 40, 'thorough': 1500}.get(tier, 300)):
        random_walk(res, mdrv, r, r.choice([20, 40, 80]))
    return res


def _replay_case(res, mdrv, c):
    rules = {x['rule']: x['methods'] for x in R.url_rules()}
    pair = None
    for st in c['steps']:
        if 'reset' in st:
            if pair is not None:
                pair.finish(mdrv)
            pair = Pair(c['cfg'], tuple(c['creds']), res, rules)
        elif 'ev' in st:
            pair.event(st['ev'])
        elif 'req' in st:
            pair.request(st['req'])
    if pair is not None and 'request' in c:
        pair.request(c['request'])
    if pair is not None:
        pair.finish(mdrv)


def replay(path, driver):
    """re-run the histories of a replay file written by check.py"""
    doc = json.load(open(path))
    res = SuiteResult('rest')
    mdrv = model_driver(driver)
    cases = [f['replay'] for f in doc.get('failures', []) if isinstance(f.get('replay'), dict) and 'steps' in f['replay']]
    for d in doc.get('disagreements', []) + [x for b in doc.get('broken_correspondence', []) for x in b.get('disagreements', [])]:
        if isinstance(d.get('case'), dict) and 'steps' in d['case']:
            cases.append(d['case'])
    for c in cases:
        # the recorded history already ends with the request when it came from the oracle
        c = dict(c)
        c.pop('request', None)
        _replay_case(res, mdrv, c)
    return res


def replay_witness(witness, driver):
    """known-finding witness: {'suite': 'rest', 'cfg': {...}, 'creds': [u, p], 'steps': [...]}"""
    res = SuiteResult('rest-witness')
    _replay_case(res, model_driver(driver), witness)
    return res
