"""Writes MANIFEST.json from harness/registry.py (so the two cannot drift)."""
import json
import os
import sys

sys.path.insert(0, os.path.dirname(os.path.abspath(__file__)))
import registry  # noqa: E402

VERIF = os.path.dirname(os.path.dirname(os.path.abspath(__file__)))
ALL = ['C%02d' % i for i in range(1, 21)]

checks = []
for pid in ALL:
    if pid not in registry.PROPS:
        continue
    info = registry.PROPS[pid]
    checks.append({
        'property_id': pid,
        'quick_cmd': './check %s --tier quick' % pid,
        'thorough_cmd': './check %s --tier thorough' % pid,
        'evidence_file': 'evidence/%s.json' % pid,
        'replay_cmd_template': './check %s --replay {path}' % pid,
        'engine': 'lean4-proof+correspondence',
        'level_claimed': {
            'category': 'proof',
            'text': info.get('level_text', 'Lean 4 theorems about a hand-written executable model of the anchored code, '
                                           'quantified over all inputs; the model is tied to /repo on every run by '
                                           'regenerated constant tables (proof obligations) and a differential '
                                           'correspondence check against the real code'),
            'design_ref': info.get('design_ref', 'DESIGN.md §5 ' + pid),
        },
        'level_note': info.get('level_note', 'Trusted: Lean kernel (axioms propext, Classical.choice, Quot.sound only), the '
                                             'statements in lean/Yabgp/Props, the translator harness/gen_tables.py, the '
                                             'sampled correspondence harness; ') + ' Not exhibited: ' + info.get('cannot', ''),
        'technique': info.get('technique', 'Lean 4 machine-checked proof over an executable model + generated-table obligations + differential correspondence with the implementation'),
    })

not_app = [{'property_id': pid, 'reason': registry.NOT_YET.get(pid, 'model and theorems not built yet in this round; not claimed')}
           for pid in ALL if pid not in registry.PROPS]

manifest = {
    'version': 1,
    'setup_cmd': 'cd lean && lake build driver Yabgp',
    'hooks': {
        'guard': 'YABGP_VERIF',
        'enable': 'no source hooks: the checks import the unmodified modules of /repo\'s working tree in-process (PYTHONPATH=/verif/harness/stubs:/repo)',
        'baseline_off_cmd': 'cd /repo && /venv/bin/python -m pytest -ra -q -p no:cacheprovider --timeout=900 --continue-on-collection-errors',
        'source_commits': [],
        'add_only': True,
    },
    'engines': [{
        'name': 'lean4-proof+correspondence',
        'path': 'check',
        'serves_properties': [c['property_id'] for c in checks],
        'kind_free_text': 'Lean 4 theorems (lean/Yabgp/Props) over executable models (lean/Yabgp/Model), native line-protocol driver, Python differential harness (harness/)',
    }],
    'checks': checks,
    'not_applicable': not_app,
    'notes': 'see DESIGN.md; known_findings.json lists recorded findings and repaired defects (fix: commits in /repo)',
}
json.dump(manifest, open(os.path.join(VERIF, 'MANIFEST.json'), 'w'), indent=1)
print('MANIFEST.json: %d checks, %d not claimed' % (len(checks), len(not_app)))
