"""The real Adj-RIB / version bookkeeping of /repo (yabgp/core/protocol.py: update_rib_in_ipv4, update_rib_out_ipv4,
update_receive_verion, update_send_version, init_rib) exercised through a REAL BGP protocol object with
CONF.bgp.rib = True: the session layer is instantiated over the stand-in reactor (impl_session.Sim), brought to
Established, and then
  * received UPDATEs are delivered as real frames on the fake transport (public path: dataReceived ->
    parse_buffer -> _update_received),
  * the sent side is driven the way yabgp/api/v1.py::send_update_message does, through yabgp/api/utils.py
    (save_send_ipv4_policies, update_send_version, send_update),
  * a session drop is connectionLost on the transport; a reconnection runs idle-hold expiry, connectTCP success,
    OPEN and KEEPALIVE again (factory.buildProtocol creates a new BGP object).
After every event the tables and counters are read back and rendered in the id-abstracted shape the Lean model
(lean/Yabgp/Model/Rib.lean, ops in lean/Yabgp/Driver/RibOps.lean) prints.

Messages are described by small JSON "specs" over fixed pools (so that every case is replayable):
  {'a': attribute-set index | None, 'n': [prefix idx], 'w': [prefix idx],
   'r': None | ['fs', [rule idx..]] | ['vpn', [[route idx, label idx]..]] | ['sr', policy idx] | ['other'],
   'u': None | ['fs', [rule idx..]] | ['vpn', [[route idx, label idx | None]..]] | ['sr', policy idx] | ['other']}
"""
import copy
import base64
import json
import struct

from lib.base import setup_impl_path, with_budget, jdump

setup_impl_path()

import impl_session as S  # noqa: E402
import impl_rest  # noqa: E402,F401  (loads yabgp.api.app before the first Sim() parses the configuration)
from gen import session_gen as SG  # noqa: E402
from oslo_config import cfg  # noqa: E402
from yabgp.message.update import Update  # noqa: E402

# ---------------------------------------------------------------------------------------------- pools
PREFIXES = ['10.1.0.0/16', '10.2.0.0/16', '192.168.3.0/24',         # pairwise disjoint (the exhaustive alphabets use these)
            '0.0.0.0/0', '10.4.0.0/15', '10.9.9.9/32']                # the random histories also: default route, /15, host route
# path attributes as the decoder returns them (received side)
RECV_ATTRS = [
    {1: 0, 2: [(2, [65002])], 3: '10.0.0.2'},
    {1: 0, 2: [(2, [65002])], 3: '10.0.0.2', 4: 50},
    {1: 2, 2: [(2, [65002, 64999])], 3: '10.0.0.2', 8: ['65002:7']},
    {1: 1, 2: [(2, [65002])], 3: '10.0.0.2', 5: 150},
]
# path attributes as they arrive in the JSON body of POST /v1/peer/<ip>/send/update (sent side)
SEND_ATTRS = [
    {1: 0, 2: [[2, [65001]]], 3: '10.0.0.1', 5: 100},
    {1: 0, 2: [[2, [65001]]], 3: '10.0.0.1', 5: 200},
    {1: 2, 2: [[2, [65001, 64999]]], 3: '10.0.0.1', 5: 100, 8: ['65001:7']},
    # no LOCAL_PREF in the request: on an iBGP session the view sends (and the tables hold) the documented default 100
    {1: 0, 2: [[2, [65001]]], 3: '10.0.0.1'},
]
# flowspec rules as decoded (integer keys); the REST layer sends the same rules with string keys
FS_RULES = [
    {1: '192.88.2.0/24', 2: '192.89.1.0/24'},
    {1: '192.88.3.0/24', 5: '=80'},
    {1: '192.88.2.0/24'},
]
VPN_ROUTES = [
    {'rd': '100:100', 'prefix': '11.11.11.11/32'},
    {'rd': '100:100', 'prefix': '12.12.12.0/24'},
    {'rd': '200:1', 'prefix': '11.11.11.11/32'},
]
VPN_LABELS = [[25], [26]]
SR_POLICIES = [
    {'distinguisher': 0, 'color': 10, 'endpoint': '10.0.0.9'},
    {'distinguisher': 0, 'color': 20, 'endpoint': '10.0.0.9'},
]
WITHDRAW_LABEL = 0x80000     # what the decoder puts into the 'label' of a withdrawn VPN route

FAMILY = {(1, 133): 'flowspec', (1, 128): 'mpls_vpn', (1, 73): 'sr_policy'}


# ---------------------------------------------------------------------------------------------- ids
def canon(v):
    """canonical JSON text of a Python value: tuples and lists alike, dictionary keys as text and sorted"""
    def c(x):
        if isinstance(x, (list, tuple)):
            return [c(y) for y in x]
        if isinstance(x, dict):
            return {str(k): c(y) for k, y in x.items()}
        if isinstance(x, (bytes, bytearray)):
            return {'bytes': bytes(x).hex()}
        return x
    return json.dumps(c(v), sort_keys=True, separators=(',', ':'))


_CLIENT = []


def _client():
    """Flask test client on the real application (yabgp.api.app)"""
    if not _CLIENT:
        _CLIENT.append(impl_rest.load_app().test_client())
    return _CLIENT[0]


class Intern(object):
    """values (canonical text) -> small natural numbers; equal ids <=> equal values"""

    def __init__(self):
        self.ids = {}
        self.back = []

    def id(self, kind, text):
        k = kind + '|' + text
        if k not in self.ids:
            self.ids[k] = len(self.back) + 1
            self.back.append(k)
        return self.ids[k]

    def name(self, i):
        return self.back[i - 1] if 0 < i <= len(self.back) else '?%s' % i


def render_key(rule, skip_label=False):
    """the dictionary key the version functions build for one rule, written independently of /repo:
    the rule's fields in sorted order as "name":"value" pairs (a VPN route's label is not part of its key)"""
    parts = []
    for k in sorted(rule.keys()):
        if skip_label and k == 'label':
            continue
        parts.append('"%s":"%s"' % (k, rule[k]))
    return '{' + ','.join(parts) + '}'


def model_msg(pm, ids):
    """a Python message {'attr','nlri','withdraw'} (decoded UPDATE or REST body) -> the model's message: every
    value replaced by its id; per announced rule the key and the value the code is expected to store"""
    attr = pm['attr']
    m = {'attr': ids.id('attr', canon(attr)),
         'nlri': [ids.id('pfx', p) for p in pm['nlri']],
         'withdraw': [ids.id('pfx', p) for p in pm['withdraw']],
         'reach': None, 'unreach': None}
    if 14 in attr:
        fam = FAMILY.get(tuple(attr[14]['afi_safi']))
        if fam in ('flowspec', 'mpls_vpn'):
            rules = []
            for rule in attr[14]['nlri']:
                value = copy.deepcopy(attr)
                del value[14]['nlri']
                if fam == 'mpls_vpn':
                    value[14]['label'] = rule.get('label')
                rules.append([ids.id(fam, render_key(rule, fam == 'mpls_vpn')), ids.id('val', canon(value))])
            m['reach'] = {'fam': fam, 'rules': rules}
        elif fam == 'sr_policy':
            nl = attr[14]['nlri']
            m['reach'] = {'fam': fam, 'key': ids.id(fam, render_key(nl)) if isinstance(nl, dict) else 0}
        else:
            m['reach'] = {'fam': 'other'}
    if 15 in attr:
        fam = FAMILY.get(tuple(attr[15]['afi_safi']))
        if fam in ('flowspec', 'mpls_vpn'):
            m['unreach'] = {'fam': fam, 'keys': [ids.id(fam, render_key(rule, fam == 'mpls_vpn'))
                                                 for rule in attr[15]['withdraw']]}
        elif fam == 'sr_policy':
            wd = attr[15]['withdraw']
            m['unreach'] = {'fam': fam, 'key': ids.id(fam, render_key(wd)) if isinstance(wd, dict) else 0}
        else:
            m['unreach'] = {'fam': 'other'}
    return m


# ---------------------------------------------------------------------------------------------- messages
def _raw_attr(code, value):
    return bytes([0x90, code]) + struct.pack('!H', len(value)) + value


RAW_REACH = {
    # families update_receive_verion has no table for: sr-policy (logged only), IPv6 unicast (no branch)
    'sr': _raw_attr(14, struct.pack('!HBB', 1, 73, 4) + bytes([10, 0, 0, 2]) + b'\x00' + bytes.fromhex('600000000000000a0a000009')),
    'other': _raw_attr(14, struct.pack('!HBB', 2, 1, 16) + bytes.fromhex('20010db8000000000000000000000002') + b'\x00' +
                       bytes.fromhex('4020010db800010000')),
}
RAW_UNREACH = {
    'sr': _raw_attr(15, struct.pack('!HB', 1, 73) + bytes.fromhex('600000000000000a0a000009')),
    'other': _raw_attr(15, struct.pack('!HB', 2, 1) + bytes.fromhex('4020010db800010000')),
}


def recv_message(spec):
    """spec -> (frame, intended message as the decoder should return it | None for raw families)"""
    attr = dict(copy.deepcopy(RECV_ATTRS[spec['a']])) if spec.get('a') is not None else {}
    raw = b''
    r, u = spec.get('r'), spec.get('u')
    if r:
        if r[0] == 'fs':
            attr[14] = {'afi_safi': (1, 133), 'nexthop': '', 'nlri': [dict(FS_RULES[i]) for i in r[1]]}
        elif r[0] == 'vpn':
            attr[14] = {'afi_safi': (1, 128), 'nexthop': {'rd': '0:0', 'str': '2.2.2.2'},
                        'nlri': [dict(VPN_ROUTES[i], label=list(VPN_LABELS[li])) for i, li in r[1]]}
        else:
            raw += RAW_REACH[r[0]]
    if u:
        if u[0] == 'fs':
            attr[15] = {'afi_safi': (1, 133), 'withdraw': [dict(FS_RULES[i]) for i in u[1]]}
        elif u[0] == 'vpn':
            attr[15] = {'afi_safi': (1, 128),
                        'withdraw': [dict(VPN_ROUTES[i], label=[WITHDRAW_LABEL]) for i, _ in u[1]]}
        else:
            raw += RAW_UNREACH[u[0]]
    pm = {'attr': attr, 'nlri': [PREFIXES[i] for i in spec.get('n', [])],
          'withdraw': [PREFIXES[i] for i in spec.get('w', [])]}
    frame = Update().construct(copy.deepcopy(pm), True, False)
    if spec.get('dirty'):
        # the same prefix as another speaker may encode it: bits beyond the prefix length set in the last octet (RFC 4271
        # 4.3: "the value of trailing bits is irrelevant") - 10.4.0.0/15 written as 0f 0a 05
        frame = frame[:19] + frame[19:].replace(b'\x0f\x0a\x04', b'\x0f\x0a\x05')
    if raw:
        body = frame[19:]
        wl = struct.unpack('!H', body[:2])[0]
        al = struct.unpack('!H', body[2 + wl:4 + wl])[0]
        body = body[:2 + wl] + struct.pack('!H', al + len(raw)) + body[4 + wl:4 + wl + al] + raw + body[4 + wl + al:]
        frame = SG.frame(2, body)
        return frame, None
    return frame, pm


def decode(frame):
    """what _update_received will see for this frame (the same call it makes)"""
    r = Update().parse(None, frame[19:], True, afi_add_path={})
    if r['sub_error']:
        return None
    return {'attr': r['attr'], 'nlri': r['nlri'], 'withdraw': r['withdraw']}


def _strkeys(rule):
    return {str(k): v for k, v in rule.items()}


def send_message(spec):
    """spec -> the (attr, nlri, withdraw) the REST layer hands to api/utils.py (JSON shapes: lists, text keys).
    `rev`: the members of every flowspec rule are written in the opposite order (the same rule, the same octets on the wire:
    a JSON object has no member order)"""
    attr = copy.deepcopy(SEND_ATTRS[spec['a']]) if spec.get('a') is not None else {}
    _sk = _strkeys
    if spec.get('rev'):
        def _sk(rule):      # noqa: F811
            return dict(reversed(list(_strkeys(rule).items())))
    r, u = spec.get('r'), spec.get('u')
    constructible = True
    if r:
        if r[0] == 'fs':
            attr[14] = {'afi_safi': [1, 133], 'nexthop': '', 'nlri': [_sk(FS_RULES[i]) for i in r[1]]}
        elif r[0] == 'vpn':
            attr[14] = {'afi_safi': [1, 128], 'nexthop': {'rd': '0:0', 'str': '2.2.2.2'},
                        'nlri': [dict(VPN_ROUTES[i], label=list(VPN_LABELS[li])) for i, li in r[1]]}
        elif r[0] == 'sr':
            attr[14] = {'afi_safi': [1, 73], 'nexthop': '10.0.0.1', 'nlri': dict(SR_POLICIES[r[1]])}
            constructible = False
        else:
            attr[14] = {'afi_safi': [2, 1], 'nexthop': '2001:db8::2', 'nlri': ['2001:db8:1::/64']}
    if u:
        if u[0] == 'fs':
            attr[15] = {'afi_safi': [1, 133], 'withdraw': [_sk(FS_RULES[i]) for i in u[1]]}
        elif u[0] == 'vpn':
            # a REST client may repeat the label it announced, give another one, or (li None) leave it out
            attr[15] = {'afi_safi': [1, 128],
                        'withdraw': [dict(VPN_ROUTES[i], label=list(VPN_LABELS[li])) if li is not None
                                     else dict(VPN_ROUTES[i]) for i, li in u[1]]}
        elif u[0] == 'sr':
            attr[15] = {'afi_safi': [1, 73], 'withdraw': dict(SR_POLICIES[u[1]])}
            constructible = False
        else:
            attr[15] = {'afi_safi': [2, 1], 'withdraw': ['2001:db8:1::/64']}
    pm = {'attr': attr, 'nlri': [PREFIXES[i] for i in spec.get('n', [])],
          'withdraw': [PREFIXES[i] for i in spec.get('w', [])]}
    return pm, constructible


BAD_UPDATE = SG.frame(2, SG.update_body(nlri=bytes([16, 10, 1]), attrs=bytes.fromhex('40010103')))   # ORIGIN = 3


# ---------------------------------------------------------------------------------------------- the real thing
class RealRib(object):
    """one peering of the real implementation with RIB maintenance switched on (or off)"""

    def __init__(self, rib=True, ids=None, ibgp=False):
        self.ids = ids or Intern()
        self.rib = rib
        self.ibgp = bool(ibgp)
        self.last_eff_attr = None
        self.sim = S.Sim({'rib': bool(rib), 'remote_as': S.DEFAULT_CFG['local_as']} if ibgp else {'rib': bool(rib)})
        self.sim.step({'k': 'boot'})
        self.cid = 0
        self.connected = False
        self.problem = None      # the harness could not set the scene (not a statement about C19)
        self.trouble = None      # the bookkeeping itself raised / disturbed the session

    # -- events
    def connect(self):
        sim = self.sim
        if self.cid > 0 or sim.world.connectors[0].state != 'connecting':
            o = sim.observe()
            if o['state'] != 'CONNECT':
                t = o['timers'].get('idlehold')
                if not t:
                    self.problem = 'no idle-hold timer after the drop: %r' % (o,)
                    return
                if t[0] > o['now']:
                    sim.step({'k': 'advance', 'dt': t[0] - o['now']})
                sim.step({'k': 'fire', 't': 'idlehold'})
            self.cid = len(sim.world.connectors) - 1
        ras = sim.cfg['remote_as']
        old = sim.peering.fsm.protocol
        sim.step({'k': 'connok', 'c': self.cid})
        sim.step({'k': 'chunk', 'c': self.cid, 'hex': SG.frame(1, SG.open_body(ras, 90, caps=SG.std_caps(ras))).hex()})
        o = sim.step({'k': 'chunk', 'c': self.cid, 'hex': SG.KEEPALIVE.hex()})
        if o['state'] != 'ESTABLISHED' or sim.peering.fsm.protocol is old:
            self.problem = 'session did not establish: %r' % (o,)
        self.connected = True

    def lost(self):
        # every second drop is initiated by the agent itself (the peer sends a Cease NOTIFICATION, the agent closes the
        # connection, then the reactor reports connectionLost); the others are plain peer-side resets
        self.ndrops = getattr(self, 'ndrops', 0) + 1
        if self.ndrops % 2 == 0 and self.sim.enabled({'k': 'chunk', 'c': self.cid}):
            self.sim.step({'k': 'chunk', 'c': self.cid, 'hex': SG.frame(3, b'\x06\x02').hex()})
        if self.sim.enabled({'k': 'lost', 'c': self.cid}):
            self.sim.step({'k': 'lost', 'c': self.cid})
        self.connected = False

    def recv(self, frame):
        """returns the handler callbacks the frame caused ('update' / 'update_error')"""
        o = self.sim.step({'k': 'chunk', 'c': self.cid, 'hex': frame.hex()})
        if o.get('escaped') or o.get('hang'):
            self.trouble = 'delivery of an UPDATE escaped: %r' % (o.get('escaped') or 'hang',)
        if o['state'] != 'ESTABLISHED':
            self.trouble = 'session left Established on an UPDATE: %s' % o['state']
        return [x[1] for x in o['outs'] if x[0] == 'handler']

    def send(self, pm, constructible=True):
        """what api/v1.py::send_update_message does with an accepted request"""
        from yabgp.api import utils as api_utils
        attr, nlri, withdraw = pm['attr'], pm['nlri'], pm['withdraw']

        def go():
            if cfg.CONF.bgp.rib:
                result = api_utils.save_send_ipv4_policies(msg={'attr': attr, 'nlri': nlri, 'withdraw': withdraw})
                if not result.get('status'):
                    return result
            api_utils.update_send_version('10.0.0.2', attr, nlri, withdraw)
            if constructible:
                return api_utils.send_update('10.0.0.2', attr, nlri, withdraw)
            return {'status': True}
        # through the real REST view whenever the request is one the view sends (so that what the view itself does -
        # which calls it makes, in which order, under which conditions - is part of what is compared)
        via_view = constructible and ((attr and nlri) or withdraw or 14 in attr or 15 in attr)
        if via_view:
            try:
                body = json.dumps({'attr': {str(k): v for k, v in attr.items()}, 'nlri': nlri, 'withdraw': withdraw})
            except (TypeError, ValueError):
                via_view = False
        # what the request asks the agent to send: the attributes given plus, on an iBGP session, the documented default
        # LOCAL_PREF 100 when the request (through the view) names attributes but no LOCAL_PREF
        self.last_eff_attr = dict(attr)
        if via_view and self.ibgp and attr and 5 not in attr:
            self.last_eff_attr[5] = 100
        if via_view:
            def go():   # noqa: F811
                client = _client()          # (importing the application registers the [rest] options)
                tok = base64.b64encode(('%s:%s' % (cfg.CONF.rest.username, cfg.CONF.rest.password)).encode('utf-8')).decode('ascii')
                resp = client.post('/v1/peer/10.0.0.2/send/update', data=body, content_type='application/json',
                                      headers={'Authorization': 'Basic ' + tok})
                if resp.status_code != 200:
                    raise RuntimeError('send/update answered %d' % resp.status_code)
                return resp.get_json()
        st, v = with_budget(S.EVENT_BUDGET, go)
        self.sim.world.flush_threads()
        self.sim.world.take_outs()
        if st != 'ok':
            self.trouble = 'send path raised %r' % (v,)
            return {'status': False}
        return v

    def call(self, fn, *args):
        """one anchored method directly on the current protocol object"""
        p = self.sim.peering.fsm.protocol
        st, v = with_budget(S.EVENT_BUDGET, getattr(p, fn), *args)
        if st != 'ok':
            self.trouble = '%s raised %r' % (fn, v)
        return v

    # -- observation
    def _table(self, d, kind):
        out = []
        for k, v in d.items():
            if kind == 'pfx':
                out.append([self.ids.id('pfx', k), self.ids.id('attr', canon(v))])
            elif kind == 'sr_policy':
                out.append([self.ids.id(kind, k), self.ids.id('attr', canon(v))])
            else:
                out.append([self.ids.id(kind, k), self.ids.id('val', canon(v))])
        return sorted(out)

    def observe(self):
        p = self.sim.peering.fsm.protocol
        tree = getattr(p, 'adj_rib_in_ipv4_tree', None)
        ver = lambda d: {k: d[k] for k in ('ipv4', 'flowspec', 'sr_policy', 'mpls_vpn')}  # noqa: E731
        return {
            'rib_in': self._table(p.adj_rib_in.get('ipv4', {}), 'pfx'),
            'rib_out': self._table(p.adj_rib_out.get('ipv4', {}), 'pfx'),
            'tree': sorted(self.ids.id('pfx', x) for x in tree.prefixes()) if tree is not None else None,
            'recv_ver': ver(p.receive_version), 'send_ver': ver(p.send_version),
            'fs_send': self._table(p.flowspec_send_dict, 'flowspec'),
            'fs_recv': self._table(p.flowspec_receive_dict, 'flowspec'),
            'sr_send': self._table(p.sr_send_dict, 'sr_policy'),
            'sr_recv': self._table(p.sr_receive_dict, 'sr_policy'),
            'vpn_send': self._table(p.mpls_vpn_send_dict, 'mpls_vpn'),
            'vpn_recv': self._table(p.mpls_vpn_receive_dict, 'mpls_vpn'),
        }

    def public(self):
        """the same state through the accessors the REST layer uses (yabgp/api/utils.py)"""
        from yabgp.api import utils as api_utils
        rin = api_utils.get_adj_rib_in(list(PREFIXES), 'ipv4')
        rout = api_utils.get_adj_rib_out(list(PREFIXES), 'ipv4')
        return {
            'recv_ver': dict(api_utils.get_peer_version('received')['version']),
            'send_ver': dict(api_utils.get_peer_version('send')['version']),
            'rib_in': {p: (canon(e['attr']) if e else None) for p, e in rin.get('data', {}).items()} if rin.get('status') else None,
            'rib_out': {p: (canon(e) if e is not None else None) for p, e in rout.get('data', {}).items()} if rout.get('status') else None,
            'raw_rib_in': {p: canon(a) for p, a in self.sim.peering.fsm.protocol.adj_rib_in.get('ipv4', {}).items()},
            'raw_rib_out': {p: canon(a) for p, a in self.sim.peering.fsm.protocol.adj_rib_out.get('ipv4', {}).items()},
        }


def describe(spec):
    return jdump(spec)
