#!/bin/bash
# usage: confirm_mutant.sh <worktree> <dir with patch.diff and demo.py>
# confirms: demo passes on the clean tree, fails with the patch; the test suite still passes with the patch
wt="$1"; d="$2"
cd "$wt" || exit 2
git checkout -q -- yabgp
demo=$(ls "$d"/demo*.py | head -1)
timeout 300 /venv/bin/python "$demo" >/dev/null 2>&1; clean=$?
git apply "$d/patch.diff" || { echo "patch does not apply"; exit 2; }
timeout 300 /venv/bin/python "$demo" >/dev/null 2>&1; mut=$?
tests=$(timeout 600 /venv/bin/python -m pytest -q -p no:cacheprovider yabgp/tests 2>&1 | tail -1)
git checkout -q -- yabgp
echo "demo_clean_exit=$clean demo_mutant_exit=$mut tests=[$tests]"
