"""The real code of /repo's working tree for property C17, behind the canonical JSON the Lean ops of
lean/Yabgp/Driver/XcOps.lean speak:
  * ExtCommunity / Community / LargeCommunity  parse and construct  (yabgp/message/attribute/*.py);
  * the REST views POST /v1/peer/<ip>/json_to_bin and /v1/peer/<ip>/send/update  (yabgp/api/v1.py) through Flask's test
    client with valid credentials, against a session brought to Established by impl_session.Sim (the unmodified
    session layer over the stand-in reactor);
  * the CPython primitives the text model is built from (int, strip, lower, split, netaddr.IPAddress, struct 'f').
Also the XcDriver: the Lean model as a line-protocol subprocess until its ops are wired into the shared native driver."""
import ast
import base64
import json
import os
import struct
import subprocess
import threading

from lib.base import setup_impl_path, with_budget, LEAN_DIR

setup_impl_path()

import logging  # noqa: E402
logging.disable(logging.CRITICAL)

import impl_session as S  # noqa: E402  (imports yabgp.config; CONF() is only called by the first Sim())
from oslo_config import cfg  # noqa: E402


def _import_app():
    """yabgp.api.app registers CLI options at import time, which oslo.config refuses once CONF() has been called
    (another suite of the same run may already have built a Sim): lift the guard for the duration of the import."""
    saved = getattr(cfg.CONF, '_args', None)
    try:
        cfg.CONF._args = None
        from yabgp.api.app import app as _app
    finally:
        cfg.CONF._args = saved
    return _app


app = _import_app()

from yabgp.message.attribute.extcommunity import ExtCommunity  # noqa: E402
from yabgp.message.attribute.community import Community  # noqa: E402
from yabgp.message.attribute.largecommunity import LargeCommunity  # noqa: E402
from yabgp.common import exception as excep  # noqa: E402
from yabgp.common import constants as bgp_cons  # noqa: E402
from gen import session_gen as SG  # noqa: E402

BUDGET = 2.0
PEER = '10.0.0.2'
AUTH = {'Authorization': 'Basic ' + base64.b64encode(b'admin:admin').decode()}
REFUSALS = (('please check peer state', 1), ('peer not support as num of greater than 65535', 2),
            ('unexpected extended community', 3))


def hx(b):
    return bytes(b).hex()


# ---------------------------------------------------------------- the Lean model as a subprocess

class XcDriver(object):
    """`lake env lean --run Yabgp/Driver/XcMain.lean` behind the same call/batch interface as lib.base.Driver.
    When the shared native driver already knows the ops (after Ops.lean has been wired) it is used instead."""

    def __init__(self, shared=None):
        self.shared = None
        if shared is not None:
            try:
                r = shared.call({'op': 'extcomm.tables'})
                if 'error' not in r:
                    self.shared = shared
            except Exception:
                self.shared = None
        self.p = None
        if self.shared is None:
            self.p = subprocess.Popen(['lake', 'env', 'lean', '--run', 'Yabgp/Driver/XcMain.lean'], cwd=LEAN_DIR,
                                      stdin=subprocess.PIPE, stdout=subprocess.PIPE, text=True, bufsize=1 << 16)
        self.n = 0

    def call(self, req):
        if self.shared is not None:
            return self.shared.call(req)
        self.p.stdin.write(json.dumps(req, separators=(',', ':')) + '\n')
        self.p.stdin.flush()
        line = self.p.stdout.readline()
        if not line:
            raise RuntimeError('XcMain died on request %r' % (req,))
        self.n += 1
        return json.loads(line)

    def batch(self, reqs):
        if self.shared is not None:
            return self.shared.batch(reqs)
        reqs = list(reqs)

        def writer():
            w = self.p.stdin
            for r in reqs:
                w.write(json.dumps(r, separators=(',', ':')) + '\n')
            w.flush()
        t = threading.Thread(target=writer)
        t.start()
        out = []
        for _ in reqs:
            line = self.p.stdout.readline()
            if not line:
                raise RuntimeError('XcMain died in batch')
            out.append(json.loads(line))
        t.join()
        self.n += len(reqs)
        return out

    def close(self):
        if self.p is None:
            return
        try:
            self.p.stdin.close()
            self.p.wait(timeout=10)
        except Exception:
            self.p.kill()


# ---------------------------------------------------------------- codecs

def _err(e):
    if isinstance(e, excep.UpdateMessageError):
        return {'err': e.sub_error}
    return {'err': 'other'}


def ext_parse(b):
    st, v = with_budget(BUDGET, ExtCommunity.parse, bytes(b))
    if st == 'hang':
        return {'hang': True}
    if st == 'raise':
        return _err(v)
    out = []
    for x in v:
        if isinstance(x, str):
            out.append(x)
        else:
            # [BGP_EXT_COM_UNKNOW, repr(value_tmp)]
            try:
                out.append([x[0], hx(ast.literal_eval(x[1]))])
            except Exception:
                out.append([x[0], {'repr': x[1]}])
    return {'ok': out}


def items_from_json(items):
    """JSON arrays -> the lists v1.py builds (the traffic-action dict stays a dict)"""
    return [list(i) for i in items]


def ext_construct(items):
    st, v = with_budget(BUDGET, ExtCommunity.construct, items_from_json(items))
    if st == 'hang':
        return {'hang': True}
    if st == 'raise':
        return {'raise': True}
    if v is None:
        return {'none': True}
    return {'hex': hx(v)}


def _texts_construct(cls, texts):
    st, v = with_budget(BUDGET, cls.construct, list(texts))
    if st == 'hang':
        return {'hang': True}
    if st == 'raise':
        return {'raise': True}
    return {'hex': hx(v)}


def _texts_parse(cls, b):
    st, v = with_budget(BUDGET, cls.parse, bytes(b))
    if st == 'hang':
        return {'hang': True}
    if st == 'raise':
        return _err(v)
    return {'ok': list(v)}


def comm_construct(texts):
    return _texts_construct(Community, texts)


def comm_parse(b):
    return _texts_parse(Community, b)


def large_construct(texts):
    return _texts_construct(LargeCommunity, texts)


def large_parse(b):
    return _texts_parse(LargeCommunity, b)


def tables():
    """the declarative tables the model hard-codes, in the shape of the `extcomm.tables` op"""
    return {'str_dict': [[k, v] for k, v in bgp_cons.BGP_EXT_COM_STR_DICT.items()],
            'dict': [[k, v] for k, v in bgp_cons.BGP_EXT_COM_DICT.items()],
            'dict1': [[k, v] for k, v in bgp_cons.BGP_EXT_COM_DICT_1.items()]}


# ---------------------------------------------------------------- CPython primitives

def py_int(s):
    try:
        return {'ok': int(s)}
    except ValueError:
        return {'raise': True}


def py_hex(s):
    try:
        return {'ok': int(s, 16)}
    except ValueError:
        return {'raise': True}


def py_ipv4(s):
    import netaddr
    try:
        a = netaddr.IPAddress(s)
    except Exception:
        return {'raise': True}
    if a.version != 4:
        return {'raise': True}
    return {'ok': int(a)}


def py_packf(i):
    try:
        return {'ok': struct.unpack('!I', struct.pack('!f', i))[0]}
    except (OverflowError, struct.error):
        return {'raise': True}


def py_unpackf(bits):
    try:
        return {'ok': '%s' % int(struct.unpack('!f', struct.pack('!I', bits))[0])}
    except (OverflowError, ValueError):
        return {'raise': True}


# ---------------------------------------------------------------- REST

def attr_tlv(msg, code):
    """the (flags, type, length, value) octets of one path attribute inside a whole UPDATE message"""
    if msg[:16] != b'\xff' * 16 or msg[18] != 2 or struct.unpack('!H', msg[16:18])[0] != len(msg):
        return None
    body = msg[19:]
    wl = struct.unpack('!H', body[0:2])[0]
    al = struct.unpack('!H', body[2 + wl:4 + wl])[0]
    attrs = body[4 + wl:4 + wl + al]
    i = 0
    while i < len(attrs):
        flags, typ = attrs[i], attrs[i + 1]
        if flags & 0x10:
            ln = struct.unpack('!H', attrs[i + 2:i + 4])[0]
            end = i + 4 + ln
        else:
            ln = attrs[i + 2]
            end = i + 3 + ln
        if typ == code:
            return attrs[i:end]
        i = end
    return None


PEER_KINDS = {
    # name: (caps of the peer's OPEN, model's Peer)
    'as4': (lambda asn: SG.std_caps(asn, as4=True), {'remote': True, 'four': True}),
    'as2': (lambda asn: SG.std_caps(asn, as4=False), {'remote': True, 'four': False}),
    'nocaps': (lambda asn: b'', {'remote': False, 'four': False}),
}


class Rest(object):
    """an Established session with a peer of the given kind + Flask test client"""

    def __init__(self, kind='as4', remote_as=65002, history=()):
        """`history`: kinds of the peers of EARLIER sessions of the same agent (each established, then dropped by the peer;
        the agent reconnects after its idle-hold time) before the session the requests are made in"""
        self.kind = kind
        self.caps = PEER_KINDS[kind][1]
        self.sim = S.Sim({'remote_as': remote_as})
        # the credentials this client uses (another suite run earlier in the same process may have configured others);
        # set_override drops oslo.config's cached group object, and with it the running_config attribute Sim put there
        rc = cfg.CONF.bgp.running_config
        cfg.CONF.set_override('username', 'admin', group='rest')
        cfg.CONF.set_override('password', 'admin', group='rest')
        cfg.CONF.bgp.running_config = rc
        o = self.sim.step({'k': 'boot'})
        cid = 0
        for n, kd in enumerate(list(history) + [kind]):
            for ev in ({'k': 'connok', 'c': cid},
                       {'k': 'chunk', 'c': cid, 'hex': SG.frame(1, SG.open_body(remote_as, 90, caps=PEER_KINDS[kd][0](remote_as))).hex()},
                       {'k': 'chunk', 'c': cid, 'hex': SG.KEEPALIVE.hex()}):
                if self.sim.enabled(ev):
                    o = self.sim.step(ev)
            if n < len(history):
                o = self.sim.step({'k': 'lost', 'c': cid})
                for _ in range(6):
                    w = self.sim.world
                    if any(c.state == 'connecting' for c in w.connectors):
                        break
                    due = [S.TIMER_NAMES.get(getattr(c.func, '__name__', None)) for c in w.due()]
                    due = [d for d in due if d]
                    if due:
                        o = self.sim.step({'k': 'fire', 't': due[0]})
                        continue
                    times = [c.time for c in w.calls if c.time > w.now]
                    if not times:
                        break
                    o = self.sim.step({'k': 'advance', 'dt': min(times) - w.now})
                cid = len(self.sim.world.connectors) - 1
        self.state = o['state']
        self.client = app.test_client()
        remote = cfg.CONF.bgp.running_config['capability']['remote']
        self.observed_caps = {'remote': bool(remote), 'four': bool(remote.get('four_bytes_as', False)) if remote else False}

    def _post(self, path, body, auth=True):
        def go():
            return self.client.post('/v1/peer/%s/%s' % (PEER, path), json=body, headers=AUTH if auth else {})
        st, r = with_budget(10.0, go)
        if st != 'ok':
            return None, None
        try:
            js = r.get_json(silent=True)
        except Exception:
            js = None
        return r.status_code, js

    @staticmethod
    def _refusal(js):
        if isinstance(js, dict) and js.get('status') is False:
            code = str(js.get('code'))
            for text, n in REFUSALS:
                if code.startswith(text):
                    return {'refused': n}
            if code.startswith('failed when send this message out'):
                return {'raise': True}
            return {'status_false': code}
        return None

    def post_attr(self, endpoint, code, value, want=None, extra=None, human=False, nlri=None):
        """POST an UPDATE carrying attribute `code` with the JSON `value` (and the attributes of `extra`); returns the TLV of
        attribute `want or code` the implementation produced: {"hex":..} | {"refused":n} | {"raise":true}"""
        body = {'attr': {'1': 0, '2': [], '3': '10.0.0.1', str(code): value}, 'nlri': list(nlri) if nlri else ['10.0.0.0/8']}
        if extra:
            body['attr'].update(extra)
        want = want or code
        if endpoint == 'json_to_bin':
            # `human`: the same endpoint with ?format=human (the octets in lines of eight, separated by blanks): put together
            # again they are the same one message
            sc, js = self._post('json_to_bin?format=human' if human else 'json_to_bin', body)
            if sc != 200 or js is None:
                return {'raise': True}
            rf = self._refusal(js)
            if rf:
                return rf
            b = js.get('bin')
            if human:
                if not isinstance(b, list) or not all(isinstance(x, str) for x in b):
                    return {'raise': True}
                b = ''.join(b).replace(' ', '')
            if not isinstance(b, str):
                return {'raise': True}
            try:
                msg = bytes.fromhex(b)
            except ValueError:
                return {'raise': True}
            # one message: its length field covers exactly what was returned
            if len(msg) < 19 or struct.unpack('!H', msg[16:18])[0] != len(msg):
                return {'not_one_message': True, 'msg': hx(msg)}
        else:
            w = self.sim.world
            w.take_outs()
            sc, js = self._post('send/update', body)
            w.flush_threads()
            outs = w.take_outs()
            if sc != 200 or js is None:
                return {'raise': True}
            rf = self._refusal(js)
            if rf:
                return rf
            if js.get('status') is not True:
                return {'raise': True}
            writes = [o[2] for o in outs if o[0] == 'write']
            if len(writes) != 1:
                return {'writes': len(writes)}
            msg = writes[0]
        tlv = attr_tlv(msg, want)
        if tlv is None:
            return {'missing': True, 'msg': hx(msg)}
        return {'hex': hx(tlv)}

    def translate(self, texts):
        """the item list the view hands to the message constructor, observed at the api_utils seam the view calls
        (`construct_update_to_bin(peer_ip, attr, nlri, withdraw)`); None when that seam no longer exists"""
        from yabgp.api import utils as api_utils
        if not hasattr(api_utils, 'construct_update_to_bin'):
            return None
        seen = {}
        orig = api_utils.construct_update_to_bin

        def spy(peer_ip, attr, nlri, withdraw):
            seen['attr'] = attr
            return b'\x00'
        api_utils.construct_update_to_bin = spy
        try:
            sc, js = self._post('json_to_bin',
                                {'attr': {'1': 0, '2': [], '3': '10.0.0.1', '16': list(texts)}, 'nlri': ['10.0.0.0/8']})
        finally:
            api_utils.construct_update_to_bin = orig
        if sc != 200 or js is None:
            return {'raise': True}
        rf = self._refusal(js)
        if rf:
            return rf
        if 'attr' not in seen or 16 not in seen['attr']:
            return {'raise': True}
        return {'ok': [list(i) for i in seen['attr'][16]]}
