"""Stand-in for simplejson (absent): the standard library json module has the same API for what yabgp uses."""
from json import *  # noqa: F401,F403
from json import dumps, loads, JSONDecodeError  # noqa: F401
