"""Stand-in for Twisted (absent from the sandbox): only what yabgp/core imports, deterministic, driven by
the harness (harness/stubs/twisted/internet/reactor.py holds the simulated world)."""
