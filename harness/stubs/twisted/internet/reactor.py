"""twisted.internet.reactor stand-in: a deterministic simulated world with a virtual clock.

Semantics reproduced from Twisted 20.3.0 (DESIGN Appendix B): DelayedCall.cancel/reset/active with
AlreadyCalled/AlreadyCancelled (`called` is set before the callback runs), connectTCP returning a connector
at once, loseConnection stopping delivery of data at once while `connected` stays true until connectionLost is
delivered, transport.write ignoring None/empty and a dead transport, callFromThread queued to the end of the
current event.  The HARNESS decides which due call fires next and which connector event happens.
Time is kept in integer ticks of 1/3 second (yabgp computes hold_time / 3 in floats)."""
from fractions import Fraction

from twisted.internet import error

TICKS = 3


class DelayedCall(object):
    def __init__(self, world, time, func, args, kw):
        self.world = world
        self.time = time
        self.func = func
        self.args = args
        self.kw = kw
        self.cancelled = 0
        self.called = 0
        self.seq = world.next_seq()

    def getTime(self):
        return Fraction(self.time, TICKS)

    def cancel(self):
        if self.cancelled:
            raise error.AlreadyCancelled
        elif self.called:
            raise error.AlreadyCalled
        self.cancelled = 1
        self.world.calls.remove(self)

    def reset(self, secondsFromNow):
        if self.cancelled:
            raise error.AlreadyCancelled
        elif self.called:
            raise error.AlreadyCalled
        self.time = self.world.now + to_ticks(secondsFromNow)

    def active(self):
        return not (self.cancelled or self.called)


def to_ticks(seconds):
    t = Fraction(seconds).limit_denominator(TICKS) * TICKS
    if t.denominator != 1:
        raise ValueError('delay %r is not a multiple of 1/3 s' % (seconds,))
    return int(t)


class Address(object):
    def __init__(self, host, port):
        self.host = host
        self.port = port
        self.type = 'TCP'


class Reason(object):
    def __init__(self, msg):
        self.msg = msg
        self.value = msg

    def getErrorMessage(self):
        return self.msg

    def check(self, *a):
        return None


class Transport(object):
    def __init__(self, world, connector):
        self.world = world
        self.connector = connector
        self.connected = 1
        self.disconnecting = 0
        self.disconnected = 0

    def write(self, data):
        if isinstance(data, str):
            raise TypeError("Data must not be unicode")
        if not self.connected:
            return
        if data:
            self.connector.written.append(bytes(data))
            self.world.out(('write', self.connector.id, bytes(data)))

    def writeSequence(self, iovec):
        for d in iovec:
            self.write(d)

    def loseConnection(self, _connDone=None):
        if self.connected and not self.disconnecting:
            self.disconnecting = 1
            self.connector.state = 'closing'
            self.world.out(('lose', self.connector.id))

    def abortConnection(self):
        self.loseConnection()

    def setTcpNoDelay(self, enabled):
        pass

    def setTcpKeepAlive(self, enabled):
        pass

    def getHost(self):
        # the first connection that comes up leaves from the configured local address; later ones may leave from another
        # address of the host (an agent bound to the wildcard address, a second uplink): the agent's BGP identifier was
        # derived once and must not follow them
        if getattr(self, 'local', None) is None:
            return Address(self.world.local_host, 50000 + self.connector.id)
        return Address(self.local, 50000 + self.connector.id)

    def getPeer(self):
        return Address(self.connector.host, self.connector.port)

    def getHandle(self):
        return self.world.sock


class FakeSocket(object):
    def setsockopt(self, *a):
        pass


class Connector(object):
    """states: connecting -> connected -> (closing ->) disconnected ; connecting -> disconnected"""

    def __init__(self, world, host, port, factory, timeout, bindAddress):
        self.world = world
        self.id = len(world.connectors)
        self.host = host
        self.port = port
        self.factory = factory
        self.timeout = timeout
        self.bindAddress = bindAddress
        self.state = 'connecting'
        self.started = world.now
        self.protocol = None
        self.transport_obj = None
        self.written = []

    # the real attribute yabgp touches for MD5: connector.transport.getHandle()
    @property
    def transport(self):
        return self.transport_obj or Transport(self.world, self)

    def getDestination(self):
        return Address(self.host, self.port)

    def stopConnecting(self):
        if self.state != 'connecting':
            raise error.NotConnectingError("we're not trying to connect")
        self.world.fail_connect(self, 'User aborted connection.')

    def disconnect(self):
        if self.state == 'connecting':
            self.stopConnecting()
        elif self.state == 'connected':
            self.transport_obj.loseConnection()


class World(object):
    def __init__(self):
        self.reset()

    def reset(self, local_host='10.0.0.1'):
        self.now = 0
        self.calls = []
        self.connectors = []
        self.outs = []
        self.thread_queue = []
        self.local_host = local_host
        self.sock = FakeSocket()
        self._seq = 0
        self.made = 0

    def next_seq(self):
        self._seq += 1
        return self._seq

    def out(self, item):
        self.outs.append(item)

    def take_outs(self):
        o, self.outs = self.outs, []
        return o

    # ---- reactor API used by yabgp
    def callLater(self, delay, func, *args, **kw):
        c = DelayedCall(self, self.now + to_ticks(delay), func, args, kw)
        self.calls.append(c)
        return c

    def connectTCP(self, host, port, factory, timeout=30, bindAddress=None):
        c = Connector(self, host, port, factory, timeout, bindAddress)
        self.connectors.append(c)
        self.out(('connect', c.id))
        try:
            factory.startedConnecting(c)
        except AttributeError:
            pass
        return c

    def callFromThread(self, f, *a, **kw):
        self.thread_queue.append((f, a, kw))

    def suggestThreadPoolSize(self, n):
        pass

    def seconds(self):
        return Fraction(self.now, TICKS)

    # ---- events the harness injects
    def flush_threads(self):
        while self.thread_queue:
            f, a, kw = self.thread_queue.pop(0)
            try:
                f(*a, **kw)
            except Exception as e:      # Twisted logs what a callFromThread callable raises and carries on
                self.out(('reactor-error', type(e).__name__))

    def connect_ok(self, connector):
        assert connector.state == 'connecting'
        p = connector.factory.buildProtocol(Address(connector.host, connector.port))
        connector.state = 'connected'
        connector.protocol = p
        t = Transport(self, connector)
        if self.made and '.' in str(self.local_host):
            t.local = '10.77.%d.%d' % ((self.made // 250) % 250, 1 + self.made % 250)
        self.made += 1
        connector.transport_obj = t
        if p is not None:
            p.makeConnection(t)
        self.flush_threads()

    def fail_connect(self, connector, msg):
        assert connector.state == 'connecting'
        connector.state = 'disconnected'
        connector.factory.clientConnectionFailed(connector, Reason(msg))
        self.flush_threads()

    def deliver(self, connector, data):
        """dataReceived; Twisted stops reading as soon as loseConnection was called"""
        t = connector.transport_obj
        if connector.state != 'connected' or t is None or t.disconnecting or not t.connected:
            return False
        connector.protocol.dataReceived(data)
        self.flush_threads()
        return True

    def lose(self, connector, msg='Connection was closed cleanly.'):
        """connectionLost delivered (peer closed, or our loseConnection completed)"""
        assert connector.state in ('connected', 'closing')
        t = connector.transport_obj
        t.connected = 0
        t.disconnected = 1
        connector.state = 'disconnected'
        connector.protocol.connectionLost(Reason(msg))
        connector.factory.clientConnectionLost(connector, Reason(msg))
        self.flush_threads()

    def due(self):
        return [c for c in self.calls if c.time <= self.now]

    def fire(self, call):
        assert call in self.calls and call.time <= self.now
        self.calls.remove(call)
        call.called = 1
        call.func(*call.args, **call.kw)
        self.flush_threads()

    def advance_to(self, t):
        assert t >= self.now
        assert all(c.time >= t for c in self.calls) or not self.calls or min(c.time for c in self.calls) >= t
        self.now = t


world = World()

# module-level API, as `from twisted.internet import reactor; reactor.callLater(...)`
callLater = world.callLater
connectTCP = world.connectTCP
callFromThread = world.callFromThread
suggestThreadPoolSize = world.suggestThreadPoolSize
seconds = world.seconds


def run():
    # the stand-in reactor is driven by the harness: `reactor.run()` at the end of the agent's start-up returns at once
    return None


def getThreadPool():
    return None


def listenTCP(*a, **kw):
    return None
