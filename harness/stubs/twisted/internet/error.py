class AlreadyCalled(ValueError):
    """Tried to cancel an already-called event."""


class AlreadyCancelled(ValueError):
    """Tried to cancel an already-cancelled event."""


class NotConnectingError(RuntimeError):
    pass


class ConnectionRefusedError(Exception):
    pass


class TimeoutError(Exception):
    pass


class ConnectionDone(Exception):
    pass


class ConnectionLost(Exception):
    pass
