"""twisted.internet.protocol: Protocol, Factory, ClientFactory as far as yabgp uses them."""


class BaseProtocol(object):
    connected = 0
    transport = None

    def makeConnection(self, transport):
        self.connected = 1
        self.transport = transport
        self.connectionMade()

    def connectionMade(self):
        pass


class Protocol(BaseProtocol):
    factory = None

    def dataReceived(self, data):
        pass

    def connectionLost(self, reason=None):
        pass


class Factory(object):
    protocol = None
    numPorts = 0
    noisy = True

    def buildProtocol(self, addr):
        p = self.protocol()
        p.factory = self
        return p

    def doStart(self):
        pass

    def doStop(self):
        pass

    def startFactory(self):
        pass

    def stopFactory(self):
        pass


class ClientFactory(Factory):
    def startedConnecting(self, connector):
        pass

    def clientConnectionFailed(self, connector, reason):
        pass

    def clientConnectionLost(self, connector, reason):
        pass
