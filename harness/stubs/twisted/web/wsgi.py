"""stand-in for twisted.web.wsgi"""


class WSGIResource(object):
    def __init__(self, reactor, threadpool, application):
        self.reactor = reactor
        self.threadpool = threadpool
        self.application = application
