"""stand-in for twisted.web.server: the agent only builds a Site around its WSGI resource and hands it to listenTCP"""


class Site(object):
    def __init__(self, resource, *a, **kw):
        self.resource = resource
