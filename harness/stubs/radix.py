"""Stand-in for py-radix: exact-match set plus longest-prefix search over IPv4 prefixes."""
import netaddr


class Node(object):
    def __init__(self, prefix):
        self.prefix = prefix
        self.data = {}


class Radix(object):
    def __init__(self):
        self._nodes = {}

    def add(self, prefix):
        n = self._nodes.get(prefix)
        if n is None:
            n = Node(prefix)
            self._nodes[prefix] = n
        return n

    def delete(self, prefix):
        if prefix not in self._nodes:
            raise KeyError(prefix)
        del self._nodes[prefix]

    def search_exact(self, prefix):
        return self._nodes.get(prefix)

    def search_best(self, addr):
        ip = netaddr.IPNetwork(addr)
        best = None
        for p, n in self._nodes.items():
            net = netaddr.IPNetwork(p)
            if ip.first >= net.first and ip.last <= net.last:
                if best is None or net.prefixlen > netaddr.IPNetwork(best.prefix).prefixlen:
                    best = n
        return best

    def __contains__(self, addr):
        try:
            return self.search_best(addr) is not None
        except Exception:
            return False

    def prefixes(self):
        return list(self._nodes)
